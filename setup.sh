#!/bin/bash
# setup_cmd: build everything the checks need from files on disk only (offline).
#  1. /verif/vendor: cargo directory source unpacked from the local registry caches
#  2. harness release build (path dependencies on /repo)
#  3. fuzz targets (cargo-fuzz, nightly) if the fuzz project exists
set -u
cd /verif
export CARGO_NET_OFFLINE=true
python3 tools/mkvendor.py /verif/vendor || exit 1
( cd harness && cargo build --release 2>&1 | tail -3 ) || exit 1
test -x harness/target/release/aquaverif || { echo "harness build failed"; exit 1; }
# the libFuzzer targets (harness/fuzz) are built on demand by the thorough tier (tools/fuzz_tier.sh)
echo "setup done"

//! Sharded proptest driver, evidence writer, replay files, known-findings handling.

use proptest::strategy::{BoxedStrategy, Strategy};
use proptest::test_runner::{Config, RngSeed, TestCaseError, TestError, TestRunner};
use serde::{de::DeserializeOwned, Serialize};
use serde_json::{json, Value};
use std::collections::{BTreeMap, HashSet};
use std::sync::atomic::{AtomicBool, Ordering};
use std::sync::Mutex;
use std::time::Instant;

#[derive(Clone, Copy, Debug, PartialEq, Eq)]
pub enum Tier {
    Quick,
    Thorough,
}

impl Tier {
    pub fn name(&self) -> &'static str {
        match self {
            Tier::Quick => "quick",
            Tier::Thorough => "thorough",
        }
    }
    pub fn pick<T>(&self, q: T, t: T) -> T {
        match self {
            Tier::Quick => q,
            Tier::Thorough => t,
        }
    }
}

#[derive(Clone, Debug, Default)]
pub struct CaseReport {
    /// number of interpreter runs / sub-evaluations this case performed
    pub evals: u64,
    /// hashes of the distinct non-trivial sub-cases seen in this case
    pub nontrivial: Vec<u64>,
    /// class labels for the distribution histogram
    pub classes: Vec<String>,
    /// a printable form of the case (kept for a few cases only)
    pub sample: Option<Value>,
}

#[derive(Clone, Debug)]
pub struct Violation {
    /// stable signature (used for known-findings matching and de-duplication)
    pub signature: String,
    pub message: String,
    /// extra detail stored in the replay file
    pub detail: Value,
}

pub enum CaseResult {
    Ok(CaseReport),
    /// the generated case is outside the property's domain (counted, not a pass)
    Discard(String),
    Violation(Violation, CaseReport),
}

pub trait Property: Sync {
    type Case: std::fmt::Debug + Clone + Serialize + DeserializeOwned;
    fn id(&self) -> &'static str;
    fn level(&self) -> &'static str {
        "exploration"
    }
    fn rule(&self) -> String;
    fn assumptions(&self) -> Vec<String> {
        vec![]
    }
    fn bounds(&self, tier: Tier) -> Value;
    fn cases(&self, tier: Tier) -> u32;
    fn strategy(&self, tier: Tier) -> BoxedStrategy<Self::Case>;
    fn check(&self, case: &Self::Case, tier: Tier) -> CaseResult;
    /// class labels that must be present (count > 0) for the run to be conclusive
    fn required_classes(&self) -> Vec<&'static str> {
        vec![]
    }
    /// bound on proptest shrink iterations (each re-runs `check`)
    fn max_shrink_iters(&self) -> u32 {
        1500
    }
    /// the form of a case written into replay files (generator-independent where possible)
    fn freeze(&self, case: &Self::Case) -> Self::Case {
        case.clone()
    }
}

#[derive(Clone, Debug)]
pub struct Known {
    pub property: String,
    pub signature: String,
    pub what: String,
    pub status: String,
}

pub fn verif_root() -> String {
    std::env::var("VERIF_ROOT").unwrap_or_else(|_| "/verif".to_string())
}

/// where evidence and newly found replay files go (VERIF_OUT; defaults to the verif root).
/// Used when checks are run against a deliberately broken tree (sensitivity runs).
pub fn out_root() -> String {
    std::env::var("VERIF_OUT").unwrap_or_else(|_| verif_root())
}

pub fn load_known() -> Vec<Known> {
    let path = format!("{}/known_findings.json", verif_root());
    let text = match std::fs::read_to_string(&path) {
        Ok(t) => t,
        Err(_) => return vec![],
    };
    let v: Value = serde_json::from_str(&text).unwrap_or(Value::Null);
    let mut out = vec![];
    if let Some(arr) = v.get("findings").and_then(|x| x.as_array()) {
        for e in arr {
            out.push(Known {
                property: e["property"].as_str().unwrap_or("").to_string(),
                signature: e["signature"].as_str().unwrap_or("").to_string(),
                what: e["what"].as_str().unwrap_or("").to_string(),
                status: e["status"].as_str().unwrap_or("known").to_string(),
            });
        }
    }
    out
}

pub fn known_match<'a>(known: &'a [Known], prop: &str, sig: &str) -> Option<&'a Known> {
    known.iter().find(|k| k.status == "known" && k.property == prop && k.signature == sig)
}

pub struct RunOpts {
    pub tier: Tier,
    pub seed: u64,
    pub shards: usize,
    /// multiply the property's case count (used by sensitivity runs)
    pub scale: f64,
}

impl RunOpts {
    pub fn from_env(tier: Tier) -> RunOpts {
        let seed = std::env::var("VERIF_SEED").ok().and_then(|s| s.parse::<u64>().ok()).unwrap_or(20260921);
        let shards = std::env::var("VERIF_SHARDS").ok().and_then(|s| s.parse().ok()).unwrap_or(16);
        let scale = std::env::var("VERIF_SCALE").ok().and_then(|s| s.parse().ok()).unwrap_or(1.0);
        RunOpts { tier, seed, shards, scale }
    }
}

static SAVED_KNOWN: Mutex<Vec<String>> = Mutex::new(Vec::new());

#[derive(Default)]
struct Agg {
    evaluations: u64,
    cases: u64,
    discards: u64,
    discard_reasons: BTreeMap<String, u64>,
    nontrivial: HashSet<u64>,
    classes: BTreeMap<String, u64>,
    samples: Vec<Value>,
    known_hits: BTreeMap<String, u64>,
    violations: Vec<(usize, Violation, Value, String)>,
}

fn seed_bytes(seed: u64, shard: u64) -> [u8; 32] {
    let mut out = [0u8; 32];
    let mut x = seed ^ shard.wrapping_mul(0x9E3779B97F4A7C15) ^ 0xD1B54A32D192ED03;
    for i in 0..4 {
        x ^= x >> 30;
        x = x.wrapping_mul(0xBF58476D1CE4E5B9);
        x ^= x >> 27;
        x = x.wrapping_mul(0x94D049BB133111EB);
        x ^= x >> 31;
        out[i * 8..i * 8 + 8].copy_from_slice(&x.to_le_bytes());
        x = x.wrapping_add(0x9E3779B97F4A7C15);
    }
    out
}

pub struct RunSummary {
    pub exit: i32,
    pub evidence: Value,
}

pub fn replay_dir(id: &str) -> String {
    format!("{}/replays/{}", verif_root(), id)
}

/// Replay all committed replay files of a property strictly (no proptest involved).
fn replay_committed<P: Property>(p: &P, tier: Tier, known: &[Known], agg: &mut Agg) {
    let dir = replay_dir(p.id());
    let mut files: Vec<_> = match std::fs::read_dir(&dir) {
        Ok(rd) => rd.filter_map(|e| e.ok()).map(|e| e.path()).filter(|p| p.extension().map(|x| x == "json").unwrap_or(false)).collect(),
        Err(_) => vec![],
    };
    files.sort();
    for f in files {
        let text = match std::fs::read_to_string(&f) {
            Ok(t) => t,
            Err(_) => continue,
        };
        let v: Value = match serde_json::from_str(&text) {
            Ok(v) => v,
            Err(_) => continue,
        };
        let case: P::Case = match serde_json::from_value(v["case"].clone()) {
            Ok(c) => c,
            Err(e) => {
                eprintln!("replay {}: cannot decode case: {}", f.display(), e);
                continue;
            }
        };
        agg.cases += 1;
        match p.check(&case, tier) {
            CaseResult::Ok(r) => {
                agg.evaluations += r.evals;
                agg.classes.entry("replayed".into()).and_modify(|c| *c += 1).or_insert(1);
            }
            CaseResult::Discard(_) => {}
            CaseResult::Violation(v, r) => {
                agg.evaluations += r.evals;
                if let Some(k) = known_match(known, p.id(), &v.signature) {
                    *agg.known_hits.entry(format!("{} [{}]", k.what, k.signature)).or_insert(0) += 1;
                } else {
                    agg.violations.push((0, v, serde_json::to_value(&case).unwrap_or(Value::Null), f.display().to_string()));
                }
            }
        }
    }
}

pub fn write_replay<C: Serialize>(id: &str, case: &C, v: &Violation, debug: &str) -> String {
    let case_json = serde_json::to_value(case).unwrap_or(Value::Null);
    write_replay_json(id, &case_json, v, debug)
}

pub fn write_replay_json(id: &str, case_json: &Value, v: &Violation, debug: &str) -> String {
    let dir = format!("{}/replays/{}/new", out_root(), id);
    let _ = std::fs::create_dir_all(&dir);
    let h = crate::core::fnv(case_json.to_string().as_bytes());
    let path = format!("{}/{:016x}.json", dir, h);
    let body = json!({
        "property": id,
        "signature": v.signature,
        "message": v.message,
        "detail": v.detail,
        "case": case_json,
        "debug": debug,
    });
    let _ = std::fs::write(&path, serde_json::to_string_pretty(&body).unwrap());
    path
}

pub fn run_property<P: Property>(p: &P, opts: &RunOpts) -> RunSummary {
    let start = Instant::now();
    let known = load_known();
    let total_cases = ((p.cases(opts.tier) as f64) * opts.scale).ceil().max(1.0) as u32;
    let shards = opts.shards.max(1);
    let per_shard = (total_cases + shards as u32 - 1) / shards as u32;
    let agg = Mutex::new(Agg::default());
    {
        let mut a = agg.lock().unwrap();
        replay_committed(p, opts.tier, &known, &mut a);
    }
    let stop = AtomicBool::new(false);
    let tier = opts.tier;
    // memory watchdog: a generated script can make one interpreter run grow its values
    // exponentially (known finding K10 of C01).  The history checks run the interpreter in
    // process, so such a case would take the whole machine down: when the resident set passes
    // the limit the cases in flight are saved and the run ends as inconclusive (exit 2).
    let in_flight: Vec<Mutex<Option<Value>>> = (0..shards).map(|_| Mutex::new(None)).collect();
    let finished = AtomicBool::new(false);
    let remaining = std::sync::atomic::AtomicUsize::new(shards);
    let rss_limit_mb: u64 = std::env::var("VERIF_RSS_LIMIT_MB").ok().and_then(|s| s.parse().ok()).unwrap_or(12_000);
    std::thread::scope(|scope| {
        {
            let in_flight = &in_flight;
            let finished = &finished;
            let id = p.id();
            scope.spawn(move || {
                while !finished.load(Ordering::Relaxed) {
                    std::thread::sleep(std::time::Duration::from_millis(200));
                    let rss_mb = std::fs::read_to_string("/proc/self/statm")
                        .ok()
                        .and_then(|t| t.split_whitespace().nth(1).and_then(|x| x.parse::<u64>().ok()))
                        .map(|pages| pages * 4096 / (1 << 20))
                        .unwrap_or(0);
                    if rss_mb > rss_limit_mb {
                        let dir = format!("{}/replays/{}/new", out_root(), id);
                        let _ = std::fs::create_dir_all(&dir);
                        for (k, slot) in in_flight.iter().enumerate() {
                            if let Ok(g) = slot.try_lock() {
                                if let Some(c) = &*g {
                                    let body = json!({"property": id, "signature": "heavy", "message": "in flight when the memory watchdog fired", "case": c});
                                    let _ = std::fs::write(format!("{}/heavy-shard{}.json", dir, k), serde_json::to_string_pretty(&body).unwrap_or_default());
                                }
                            }
                        }
                        println!("INCONCLUSIVE property={} the harness process passed {} MiB resident: a generated case makes one interpreter run grow without bound (cases in flight saved to {}/heavy-shard*.json)", id, rss_limit_mb, dir);
                        std::process::exit(2);
                    }
                }
            });
        }
        for shard in 0..shards {
            let agg = &agg;
            let in_flight = &in_flight;
            let (finished, remaining) = (&finished, &remaining);
            let known = &known;
            let stop = &stop;
            let seed = opts.seed;
            std::thread::Builder::new()
                .stack_size(256 << 20)
                .spawn_scoped(scope, move || {
                    let mut local = Agg::default();
                    let cfg = Config {
                        cases: per_shard,
                        failure_persistence: None,
                        rng_seed: RngSeed::Fixed(0),
                        max_shrink_iters: p.max_shrink_iters(),
                        max_global_rejects: 1_000_000,
                        max_local_rejects: 1_000_000,
                        ..Config::default()
                    };
                    let rng = proptest::test_runner::TestRng::from_seed(
                        proptest::test_runner::RngAlgorithm::ChaCha,
                        &seed_bytes(seed, shard as u64),
                    );
                    let mut runner = TestRunner::new_with_rng(cfg, rng);
                    let strat = p.strategy(tier);
                    let failed = std::cell::Cell::new(false);
                    let local_cell = std::cell::RefCell::new(&mut local);
                    let res = runner.run(&strat, |case| {
                        if stop.load(Ordering::Relaxed) && !failed.get() {
                            return Ok(());
                        }
                        if let Ok(mut g) = in_flight[shard].lock() {
                            *g = serde_json::to_value(&case).ok();
                        }
                        let r = match std::panic::catch_unwind(std::panic::AssertUnwindSafe(|| p.check(&case, tier))) {
                            Ok(r) => r,
                            // a panic inside the interpreter belongs to C01; for this property
                            // the case is inconclusive (counted as a discard with its signature)
                            Err(_) => CaseResult::Discard(format!("panic inside the case, see C01: {}", crate::isolate::last_panic())),
                        };
                        let mut l = local_cell.borrow_mut();
                        match r {
                            CaseResult::Ok(rep) => {
                                if !failed.get() {
                                    l.cases += 1;
                                    l.evaluations += rep.evals;
                                    for h in rep.nontrivial {
                                        l.nontrivial.insert(h);
                                    }
                                    for c in rep.classes {
                                        *l.classes.entry(c).or_insert(0) += 1;
                                    }
                                    if let Some(s) = rep.sample {
                                        if l.samples.len() < 2 {
                                            l.samples.push(s);
                                        }
                                    }
                                }
                                Ok(())
                            }
                            CaseResult::Discard(why) => {
                                if !failed.get() {
                                    l.discards += 1;
                                    *l.discard_reasons.entry(why).or_insert(0) += 1;
                                }
                                Ok(())
                            }
                            CaseResult::Violation(v, rep) => {
                                // triage aid: VERIF_ONLY_SIG=<signature> searches for that one signature only
                                if let Ok(only) = std::env::var("VERIF_ONLY_SIG") {
                                    if v.signature != only {
                                        return Ok(());
                                    }
                                }
                                if let Some(k) = known_match(known, p.id(), &v.signature) {
                                    if std::env::var("VERIF_SAVE_KNOWN").is_ok() && {
                                        let mut g = SAVED_KNOWN.lock().unwrap();
                                        if g.contains(&v.signature) {
                                            false
                                        } else {
                                            g.push(v.signature.clone());
                                            true
                                        }
                                    } {
                                        let path = write_replay(p.id(), &p.freeze(&case), &v, "");
                                        eprintln!("saved known-finding case to {}", path);
                                    }
                                    if !failed.get() {
                                        l.cases += 1;
                                        l.evaluations += rep.evals;
                                        *l.known_hits.entry(format!("{} [{}]", k.what, k.signature)).or_insert(0) += 1;
                                    }
                                    return Ok(());
                                }
                                if !failed.get() {
                                    l.cases += 1;
                                    l.evaluations += rep.evals;
                                }
                                failed.set(true);
                                Err(TestCaseError::fail(v.signature.clone()))
                            }
                        }
                    });
                    drop(local_cell);
                    if let Err(TestError::Fail(_, minimal)) = res {
                        stop.store(true, Ordering::Relaxed);
                        // recompute the violation on the minimal case
                        let v = match p.check(&minimal, tier) {
                            CaseResult::Violation(v, _) => v,
                            _ => Violation {
                                signature: "unstable".into(),
                                message: "minimal case did not reproduce (flaky oracle?)".into(),
                                detail: Value::Null,
                            },
                        };
                        let dbg = format!("{:?}", minimal);
                        let dbg = if dbg.len() > 20000 { dbg[..20000].to_string() } else { dbg };
                        let mut case_json = serde_json::to_value(&p.freeze(&minimal)).unwrap_or(Value::Null);
                        if let Some(o) = case_json.as_object_mut() {
                            o.insert("__debug".into(), Value::String(dbg));
                        }
                        local.violations.push((shard, v, case_json, String::new()));
                    } else if let Err(TestError::Abort(r)) = res {
                        eprintln!("shard {} aborted: {}", shard, r);
                    }
                    let mut a = agg.lock().unwrap();
                    a.cases += local.cases;
                    a.evaluations += local.evaluations;
                    a.discards += local.discards;
                    for (k, v) in local.discard_reasons {
                        *a.discard_reasons.entry(k).or_insert(0) += v;
                    }
                    a.nontrivial.extend(local.nontrivial);
                    for (k, v) in local.classes {
                        *a.classes.entry(k).or_insert(0) += v;
                    }
                    for s in local.samples {
                        if a.samples.len() < 5 {
                            a.samples.push(s);
                        }
                    }
                    for (k, v) in local.known_hits {
                        *a.known_hits.entry(k).or_insert(0) += v;
                    }
                    a.violations.extend(local.violations);
                    drop(a);
                    if remaining.fetch_sub(1, Ordering::SeqCst) == 1 {
                        finished.store(true, Ordering::SeqCst);
                    }
                })
                .expect("spawn shard");
        }
    });
    let mut a = agg.into_inner().unwrap();
    a.violations.sort_by_key(|v| v.0);
    let wall = start.elapsed().as_secs_f64();
    for (k, n) in &a.known_hits {
        println!("KNOWN-FINDING: property={} {} (hit {} times)", p.id(), k, n);
    }
    let mut exit = 0;
    if let Some((_, v, case_json, path)) = a.violations.first_mut() {
        if path.is_empty() {
            let mut cj = case_json.clone();
            let dbg = cj.as_object_mut().and_then(|o| o.remove("__debug")).and_then(|d| d.as_str().map(|s| s.to_string())).unwrap_or_default();
            *path = write_replay_json(p.id(), &cj, v, &dbg);
        }
        println!("VIOLATION property={} replay={}", p.id(), path);
        println!("  signature: {}", v.signature);
        println!("  message: {}", v.message);
        exit = 1;
    }
    // further violations (other shards): replay files are written for each distinct signature
    {
        let mut seen: HashSet<String> = HashSet::new();
        if let Some(f) = a.violations.first() {
            seen.insert(f.1.signature.clone());
        }
        for (_, v, case_json, path) in a.violations.iter_mut().skip(1) {
            if !seen.insert(v.signature.clone()) {
                continue;
            }
            if path.is_empty() {
                let mut cj = case_json.clone();
                let dbg = cj.as_object_mut().and_then(|o| o.remove("__debug")).and_then(|d| d.as_str().map(|s| s.to_string())).unwrap_or_default();
                *path = write_replay_json(p.id(), &cj, v, &dbg);
            }
            println!("  also: signature {} replay={}", v.signature, path);
        }
    }
    let mut missing = vec![];
    for c in p.required_classes() {
        if a.classes.get(c).cloned().unwrap_or(0) == 0 {
            missing.push(c.to_string());
        }
    }
    if exit == 0 && (!missing.is_empty() || a.nontrivial.len() < 2) {
        println!(
            "INCONCLUSIVE property={} missing classes {:?}, distinct non-trivial {}",
            p.id(),
            missing,
            a.nontrivial.len()
        );
        exit = 2;
    }
    let evidence = json!({
        "property_id": p.id(),
        "tier": opts.tier.name(),
        "seed": opts.seed,
        "level": p.level(),
        "coverage": {
            "evaluations": a.evaluations.max(a.cases),
            "cases": a.cases,
            "discarded_cases": a.discards,
            "discard_reasons": a.discard_reasons,
            "distinct_nontrivial": a.nontrivial.len(),
            "rule": p.rule(),
            "classes": a.classes,
            "samples": a.samples,
            "bounds": p.bounds(opts.tier),
            "known_findings_hit": a.known_hits,
            "shards": shards,
        },
        "assumptions": p.assumptions(),
        "wall_s": wall,
        "violations": a.violations.len(),
    });
    println!(
        "{} {}: cases={} evaluations={} nontrivial={} discards={} violations={} wall={:.1}s",
        p.id(),
        opts.tier.name(),
        a.cases,
        a.evaluations,
        a.nontrivial.len(),
        a.discards,
        a.violations.len(),
        wall
    );
    RunSummary { exit, evidence }
}

pub fn write_evidence(id: &str, ev: &Value) {
    let dir = format!("{}/evidence", out_root());
    let _ = std::fs::create_dir_all(&dir);
    let _ = std::fs::write(format!("{}/{}.json", dir, id), serde_json::to_string_pretty(ev).unwrap());
}

/// Replay one file strictly: exit code 1 when the violation reproduces.
pub fn replay_file<P: Property>(p: &P, path: &str, tier: Tier) -> i32 {
    let text = std::fs::read_to_string(path).expect("read replay file");
    let v: Value = serde_json::from_str(&text).expect("replay json");
    let case: P::Case = serde_json::from_value(v["case"].clone()).expect("replay case");
    match p.check(&case, tier) {
        CaseResult::Ok(_) => {
            println!("replay {}: property held", path);
            0
        }
        CaseResult::Discard(w) => {
            println!("replay {}: discarded ({})", path, w);
            0
        }
        CaseResult::Violation(v, _) => {
            println!("VIOLATION property={} replay={}", p.id(), path);
            println!("  signature: {}", v.signature);
            println!("  message: {}", v.message);
            1
        }
    }
}

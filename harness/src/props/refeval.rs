//! C16 (distributed execution agrees with the sequential reading), C17 (tetraplets),
//! C19 (addressing and forwarding) -- oracles based on the reference evaluator.

use crate::core::*;
use crate::engine::*;
use crate::model::eval::{evaluate, CallRec, RefResult, Status, Tet};
use crate::props::hist::*;
use crate::sim::*;
use proptest::prelude::*;
use serde_json::{json, Value};

fn viol(sig: &str, msg: String, h: &Hist, step: usize) -> Violation {
    Violation {
        signature: sig.to_string(),
        message: msg,
        detail: json!({"step": step, "script": h.script.text, "actions": h.log.iter().map(|r| action_json(&r.action)).collect::<Vec<_>>()}),
    }
}

fn frag_hist(tier: Tier, sched: usize) -> BoxedStrategy<HistCase> {
    hist_strategy(0, tier.pick(6, 8), tier.pick(40, 80), sched, false)
}

fn std_bounds(tier: Tier, sched: usize) -> Value {
    json!({"skeleton_depth": tier.pick(6, 8), "skeleton_size": tier.pick(40, 80), "schedule_len": sched, "peers": "3..5", "max_steps": 300, "array_len": "1..3"})
}

pub struct HostCall<'a> {
    pub step: usize,
    pub peer: &'a str,
    pub peer_name: &'a str,
    pub id: u32,
    pub req: &'a Request,
}

pub fn host_calls(h: &Hist) -> Vec<HostCall<'_>> {
    let mut v = vec![];
    for r in &h.log {
        if let Ok(reqs) = &r.out.requests {
            for (id, req) in reqs {
                v.push(HostCall { step: r.step, peer: &h.script.peers[r.peer].id, peer_name: &h.script.peers[r.peer].name, id: *id, req });
            }
        }
    }
    v
}

fn same_call(c: &CallRec, hc: &HostCall<'_>) -> bool {
    c.peer == hc.peer && c.service == hc.req.service && c.function == hc.req.function && c.args == hc.req.args
}

fn ref_classes(r: &RefResult, rep: &mut CaseReport) {
    if r.stats.xor_right_taken > 0 {
        rep.classes.push("ref:xor_right_taken".into());
    }
    if r.stats.match_false > 0 {
        rep.classes.push("ref:match_false".into());
    }
    if r.stats.max_fold_iters >= 2 {
        rep.classes.push("ref:fold_ge_2_iterations".into());
    }
    if r.stats.joins > 0 {
        rep.classes.push("ref:waiting_instruction".into());
    }
    if r.stats.variable_targets > 0 {
        rep.classes.push("ref:variable_target".into());
    }
    if r.status == Status::Complete {
        rep.classes.push("ref:complete".into());
    }
    if r.stats.uncaught_error.is_some() {
        rep.classes.push("ref:uncaught_error".into());
    }
}

// ------------------------------------------------------------------------------ C16

pub struct C16;

impl Property for C16 {
    type Case = HistCase;
    fn freeze(&self, case: &HistCase) -> HistCase {
        crate::props::hist::freeze_hist(case)
    }
    fn id(&self) -> &'static str {
        "C16"
    }
    fn rule(&self) -> String {
        "scripts of the C16 fragment (call seq par xor match mismatch fail null never, scalar ap, lenses, new, scalar folds with next anywhere and optional last instruction; fallible instructions under an xor with no par between; services deterministic, some failing) over 3-5 peers under random schedules with duplicates and late/batched results. Oracle: the multiset of (issuing peer, service, function, argument values) over all host call requests of the history must be contained in the multiset of calls an independent reference evaluator of the sequential reading makes. Non-trivial = the reference takes an xor right branch or a false match/mismatch or a fold with >= 2 iterations, and calls ran on >= 2 peers; distinct by (script, schedule) hash".into()
    }
    fn assumptions(&self) -> Vec<String> {
        vec!["the reference evaluator (model/eval.rs) is the meaning of the fragment; it was written from docs/AIR.md and docs/fold.md".into(), "cases where the reference meets something outside the fragment are discarded and counted".into()]
    }
    fn bounds(&self, tier: Tier) -> Value {
        std_bounds(tier, 40)
    }
    fn cases(&self, tier: Tier) -> u32 {
        tier.pick(100_000, 1_000_000)
    }
    fn strategy(&self, tier: Tier) -> BoxedStrategy<HistCase> {
        frag_hist(tier, 40)
    }
    fn required_classes(&self) -> Vec<&'static str> {
        vec!["ref:xor_right_taken", "ref:match_false", "ref:fold_ge_2_iterations", "ref:waiting_instruction", "ref:variable_target", "all_reference_calls_made", "three_peers_ran", "redelivery"]
    }
    fn check(&self, case: &HistCase, _tier: Tier) -> CaseResult {
        let h = match simulate(case) {
            Ok(h) => h,
            Err(e) => return CaseResult::Discard(e),
        };
        let r = evaluate(&h.script);
        if !r.stats.unsupported.is_empty() {
            return CaseResult::Discard(format!("outside the fragment: {}", r.stats.unsupported[0].split(' ').next().unwrap_or("")));
        }
        let mut rep = CaseReport { classes: hist_classes(&h), ..Default::default() };
        rep.evals = h.log.len() as u64;
        ref_classes(&r, &mut rep);
        let mut remaining: Vec<&CallRec> = r.calls.iter().collect();
        let hcs = host_calls(&h);
        for hc in &hcs {
            match remaining.iter().position(|c| same_call(c, hc)) {
                Some(p) => {
                    remaining.remove(p);
                }
                None => {
                    // classify: same function elsewhere / other args / not at all
                    let same_fn: Vec<&CallRec> = r.calls.iter().filter(|c| c.function == hc.req.function).collect();
                    let kind = if same_fn.is_empty() {
                        "call-not-in-sequential-reading"
                    } else if same_fn.iter().any(|c| c.args == hc.req.args && c.peer != hc.peer) {
                        "call-on-wrong-peer"
                    } else if same_fn.iter().any(|c| same_call(c, hc)) {
                        "call-made-more-often"
                    } else {
                        "call-with-wrong-arguments"
                    };
                    let mut v = viol(
                        &format!("C16:{}", kind),
                        format!("peer {} issued {}.{}({}) which the sequential reading does not make; it makes: {:?}", hc.peer_name, hc.req.service, hc.req.function, Value::Array(hc.req.args.clone()), same_fn.iter().map(|c| format!("{}@{}", Value::Array(c.args.clone()), &c.peer[c.peer.len() - 4..])).collect::<Vec<_>>()),
                        &h,
                        hc.step,
                    );
                    v.detail["reference_calls"] = json!(r.calls.iter().map(|c| format!("{}.{}{} @{}", c.service, c.function, Value::Array(c.args.clone()), &c.peer[c.peer.len() - 4..])).collect::<Vec<_>>());
                    return CaseResult::Violation(v, rep);
                }
            }
        }
        if remaining.is_empty() && h.quiescent {
            rep.classes.push("all_reference_calls_made".into());
        } else if h.quiescent {
            rep.classes.push("some_reference_calls_not_made_at_quiescence".into());
        }
        let peers_called: std::collections::BTreeSet<&str> = hcs.iter().map(|c| c.peer).collect();
        if (r.stats.xor_right_taken > 0 || r.stats.match_false > 0 || r.stats.max_fold_iters >= 2) && peers_called.len() >= 2 {
            rep.nontrivial.push(fnv(format!("{}|{:?}", h.script.text, case.sched).as_bytes()));
        }
        rep.sample = Some(json!({"script": h.script.text, "runs": h.log.len(), "host_calls": hcs.len(), "reference_calls": r.calls.len(), "reference_status": format!("{:?}", r.status)}));
        CaseResult::Ok(rep)
    }
}

// ------------------------------------------------------------------------------ C17

pub struct C17;

fn tet_of(t: &polyplets::SecurityTetraplet) -> Tet {
    Tet { peer: t.peer_pk.clone(), service: t.service_id.clone(), function: t.function_name.clone(), lens: t.lens.clone() }
}

impl Property for C17 {
    type Case = HistCase;
    fn freeze(&self, case: &HistCase) -> HistCase {
        crate::props::hist::freeze_hist(case)
    }
    fn id(&self) -> &'static str {
        "C17"
    }
    fn rule(&self) -> String {
        "same histories as C16 plus scripts with canonicalised streams: for every host call request the per-argument security tetraplets must equal the provenance the reference evaluator computes (producer peer/service/function of the value, init peer with empty service/function for literals, lens text as written, `.$.[i]` appended for fold elements, one tetraplet per element for canon streams passed whole). Non-trivial = an argument whose value was produced on another peer than the caller and carries a non-empty lens; distinct by (script, schedule) hash".into()
    }
    fn assumptions(&self) -> Vec<String> {
        vec!["conventions pinned by the repository's own tetraplet tests: literal = init peer, lens concatenated as written, fold element `.$.[i]`".into()]
    }
    fn bounds(&self, tier: Tier) -> Value {
        std_bounds(tier, 40)
    }
    fn cases(&self, tier: Tier) -> u32 {
        tier.pick(40_000, 600_000)
    }
    fn strategy(&self, tier: Tier) -> BoxedStrategy<HistCase> {
        prop_oneof![3 => frag_hist(tier, 40), 2 => hist_strategy(1, tier.pick(5, 7), tier.pick(30, 60), 40, false)].boxed()
    }
    fn required_classes(&self) -> Vec<&'static str> {
        vec!["arg:literal", "arg:remote_value_with_lens", "arg:fold_element", "arg:canon_stream", "arg:init_peer"]
    }
    fn check(&self, case: &HistCase, _tier: Tier) -> CaseResult {
        let h = match simulate(case) {
            Ok(h) => h,
            Err(e) => return CaseResult::Discard(e),
        };
        let r = evaluate(&h.script);
        if !r.stats.unsupported.is_empty() {
            return CaseResult::Discard(format!("outside the modelled fragment: {}", r.stats.unsupported[0].split(' ').next().unwrap_or("")));
        }
        let mut rep = CaseReport { classes: hist_classes(&h), ..Default::default() };
        ref_classes(&r, &mut rep);
        let hcs = host_calls(&h);
        let mut nontrivial = false;
        for hc in &hcs {
            rep.evals += 1;
            let cands: Vec<&CallRec> = r.calls.iter().filter(|c| same_call(c, hc)).collect();
            if cands.is_empty() {
                // C16's business (or streams delivered in another order than the sequential reading)
                rep.classes.push("call_not_in_reference".into());
                continue;
            }
            let got: Vec<Vec<Tet>> = hc.req.tetraplets.iter().map(|v| v.iter().map(tet_of).collect()).collect();
            if !cands.iter().any(|c| c.tetraplets == got) {
                if r.stats.equal_stream_values_of_different_provenance && r.stats.canons > 0 {
                    // equal values appended by different peers: the sequential reading cannot tell
                    // which of them a canon index selects on the canonicalizing peer (not judged)
                    rep.classes.push("ambiguous_equal_stream_values".into());
                    continue;
                }
                let c = cands[0];
                let k = (0..got.len().max(c.tetraplets.len())).find(|k| got.get(*k) != c.tetraplets.get(*k)).unwrap_or(0);
                let field = match (got.get(k).and_then(|v| v.first()), c.tetraplets.get(k).and_then(|v| v.first())) {
                    (Some(a), Some(b)) if a.peer != b.peer => "peer",
                    (Some(a), Some(b)) if a.service != b.service => "service",
                    (Some(a), Some(b)) if a.function != b.function => "function",
                    (Some(a), Some(b)) if a.lens != b.lens => "lens",
                    _ => "count",
                };
                let mut v = viol(
                    &format!("C17:tetraplet-{}", field),
                    format!("call {}.{} at {}: argument {} ({}) has tetraplets {:?} but its provenance is {:?}", hc.req.service, hc.req.function, hc.peer_name, k, hc.req.args.get(k).cloned().unwrap_or(Value::Null), got.get(k), c.tetraplets.get(k)),
                    &h,
                    hc.step,
                );
                v.detail["request"] = json!(format!("{:?}", hc.req));
                return CaseResult::Violation(v, rep);
            }
            for ts in &got {
                if ts.len() != 1 {
                    rep.classes.push("arg:canon_stream".into());
                    continue;
                }
                let t = &ts[0];
                if t.service.is_empty() && t.function.is_empty() && t.lens.is_empty() {
                    rep.classes.push("arg:literal".into());
                } else if t.lens.ends_with(']') && t.lens.contains(".$.[") {
                    rep.classes.push("arg:fold_element".into());
                }
                if !t.lens.is_empty() && t.peer != hc.peer && !t.service.is_empty() {
                    rep.classes.push("arg:remote_value_with_lens".into());
                    nontrivial = true;
                }
            }
            if hc.req.args.iter().any(|a| a.as_str() == Some(h.particle.init_peer_id.as_str())) {
                rep.classes.push("arg:init_peer".into());
            }
        }
        if nontrivial {
            rep.nontrivial.push(fnv(format!("{}|{:?}", h.script.text, case.sched).as_bytes()));
        }
        rep.sample = Some(json!({"script": h.script.text, "host_calls": hcs.iter().take(3).map(|c| format!("{} {:?}", c.req.function, c.req.tetraplets)).collect::<Vec<_>>()}));
        CaseResult::Ok(rep)
    }
}

// ------------------------------------------------------------------------------ C19

pub struct C19;

use air_interpreter_data::{CallResult, CanonResult, ExecutedState, Sender};

/// number of call / canon states marked "sent by `me`" (forwarded to their target)
fn sent_marks(d: &air_interpreter_data::InterpreterData, me: &str) -> usize {
    d.trace
        .iter()
        .filter(|s| match s {
            ExecutedState::Call(CallResult::RequestSentBy(Sender::PeerId(p))) => p.as_str() == me,
            ExecutedState::Canon(CanonResult::RequestSentBy(p)) => p.as_str() == me,
            _ => false,
        })
        .count()
}

fn all_sent_marks(d: &air_interpreter_data::InterpreterData) -> Vec<String> {
    d.trace
        .iter()
        .enumerate()
        .filter_map(|(i, s)| match s {
            ExecutedState::Call(CallResult::RequestSentBy(Sender::PeerId(p))) => Some(format!("{}:call sent by {}", i, &p[p.len().saturating_sub(4)..])),
            ExecutedState::Call(CallResult::RequestSentBy(Sender::PeerIdWithCallId { peer_id, call_id })) => Some(format!("{}:call requested by {}:{}", i, &peer_id[peer_id.len().saturating_sub(4)..], call_id)),
            ExecutedState::Canon(CanonResult::RequestSentBy(p)) => Some(format!("{}:canon sent by {}", i, &p[p.len().saturating_sub(4)..])),
            _ => None,
        })
        .collect()
}

/// canon result CIDs with the peer recorded in their tetraplet
fn canon_results(d: &air_interpreter_data::InterpreterData) -> Vec<(String, String)> {
    let mut v = vec![];
    for s in d.trace.iter() {
        if let ExecutedState::Canon(CanonResult::Executed(c)) = s {
            if let Some(r) = d.cid_info.canon_result_store.get(c) {
                if let Some(t) = d.cid_info.tetraplet_store.get(&r.tetraplet) {
                    v.push((c.get_inner().to_string(), t.peer_pk.clone()));
                }
            }
        }
    }
    v
}

impl Property for C19 {
    type Case = HistCase;
    fn id(&self) -> &'static str {
        "C19"
    }
    fn rule(&self) -> String {
        "histories of fragment and stream scripts with literal, %init_peer_id%, variable and lens-selected targets. Per run: (a) every call request is a call the reference evaluator addresses to the issuing peer; (b) every canon result that is new in the run's data (not in prev or current data) carries the current peer in its tetraplet and the current peer is a designated peer of some canon of the script; (c) next_peer_pks has no duplicates and never the current peer; (d) a run that adds `sent by me` marks (more than prev data held) returns a non-empty next-peer list. At quiescence, in the sub-domain of stream-free scripts whose call arguments are literals and fold iterators (a reached call can always be executed by its target), the final data of all peers merged at an observer contains no call or canon state that is still marked as sent or requested. Non-trivial = a variable-addressed call and >= 3 peers ran; distinct by (script, schedule) hash".into()
    }
    fn assumptions(&self) -> Vec<String> {
        vec![
            "the quiescence claim is asserted only where it is unconditional: scripts whose call arguments are literals/iterators (a call marked as sent with unresolved scalar arguments legitimately stays marked when the value never reaches the target)".into(),
            "reference evaluator for (a)".into(),
        ]
    }
    fn bounds(&self, tier: Tier) -> Value {
        std_bounds(tier, 40)
    }
    fn cases(&self, tier: Tier) -> u32 {
        tier.pick(60_000, 800_000)
    }
    fn strategy(&self, tier: Tier) -> BoxedStrategy<HistCase> {
        let lit = |profile: u8, t: Tier| hist_strategy(profile, t.pick(6, 8), t.pick(40, 80), 40, false).prop_map(|mut c| {
            c.lit_args = true;
            c
        });
        prop_oneof![2 => frag_hist(tier, 40), 3 => lit(0, tier), 2 => lit(1, tier), 1 => hist_strategy(1, tier.pick(5, 7), tier.pick(30, 60), 40, false)].boxed()
    }
    fn required_classes(&self) -> Vec<&'static str> {
        vec!["ref:variable_target", "quiescent_no_marks_checked", "quiescent_stream_script_checked", "new_canon_result", "marks_added", "three_peers_ran", "has_canon"]
    }
    fn check(&self, case: &HistCase, _tier: Tier) -> CaseResult {
        let h = match simulate(case) {
            Ok(h) => h,
            Err(e) => return CaseResult::Discard(e),
        };
        let mut rep = CaseReport { classes: hist_classes(&h), ..Default::default() };
        let r = evaluate(&h.script);
        let ref_ok = r.stats.unsupported.is_empty();
        if ref_ok {
            ref_classes(&r, &mut rep);
        }
        // designated peers of the script's canons (literal / init peer targets; variable targets via the reference)
        let mut designated: std::collections::BTreeSet<String> = Default::default();
        let mut unknown_designated = false;
        h.script.instr.visit(&mut |n| {
            if let crate::script::I::Canon { peer, .. } = n {
                match peer {
                    crate::script::Arg::Str(p) => {
                        designated.insert(p.clone());
                    }
                    crate::script::Arg::InitPeer => {
                        designated.insert(h.particle.init_peer_id.clone());
                    }
                    _ => unknown_designated = true,
                }
            }
        });
        for rr in &h.log {
            rep.evals += 1;
            let me = &h.script.peers[rr.peer].id;
            // (c)
            let mut seen = std::collections::BTreeSet::new();
            for p in &rr.out.next_peers_raw {
                if p == me {
                    return CaseResult::Violation(viol("C19:next-peers-contain-self", format!("peer {} lists itself as next peer", h.script.peers[rr.peer].name), &h, rr.step), rep);
                }
                if !seen.insert(p.clone()) {
                    return CaseResult::Violation(viol("C19:next-peers-duplicate", format!("next peers contain {} twice", p), &h, rr.step), rep);
                }
            }
            if !is_new_data(rr.out.ret_code) {
                continue;
            }
            // (a)
            if ref_ok {
                if let Ok(reqs) = &rr.out.requests {
                    for (id, q) in reqs {
                        let same_fn: Vec<&CallRec> = r.calls.iter().filter(|c| c.function == q.function && c.service == q.service && c.args == q.args).collect();
                        if !same_fn.is_empty() && !same_fn.iter().any(|c| c.peer == *me) {
                            return CaseResult::Violation(
                                viol("C19:call-executed-on-wrong-peer", format!("peer {} executes {}.{} (request {}) which is addressed to {}", h.script.peers[rr.peer].name, q.service, q.function, id, same_fn[0].peer), &h, rr.step),
                                rep,
                            );
                        }
                    }
                }
            }
            let (dp, dc, dn) = match (decode_data(&rr.prev), decode_data(&rr.cur), decode_data(&rr.out.data)) {
                (Ok(a), Ok(b), Ok(c)) => (a, b, c),
                _ => continue,
            };
            // (b)
            let known: std::collections::BTreeSet<String> = canon_results(&dp.data).into_iter().chain(canon_results(&dc.data)).map(|x| x.0).collect();
            for (cid, peer) in canon_results(&dn.data) {
                if known.contains(&cid) {
                    continue;
                }
                rep.classes.push("new_canon_result".into());
                if peer != *me {
                    return CaseResult::Violation(viol("C19:canon-attributed-to-other-peer", format!("peer {} produced a canon result attributed to {}", h.script.peers[rr.peer].name, peer), &h, rr.step), rep);
                }
                if !unknown_designated && !designated.contains(me) {
                    return CaseResult::Violation(viol("C19:canon-on-undesignated-peer", format!("peer {} canonicalized a stream although no canon of the script is addressed to it", h.script.peers[rr.peer].name), &h, rr.step), rep);
                }
            }
            // (d)
            let before = sent_marks(&dp.data, me).max(sent_marks(&dc.data, me));
            let after = sent_marks(&dn.data, me);
            if after > before {
                rep.classes.push("marks_added".into());
                if rr.out.next_peers_raw.is_empty() {
                    let mut v = viol("C19:marked-sent-but-not-forwarded", format!("peer {} marked {} more call/canon states as sent but returned no next peers", h.script.peers[rr.peer].name, after - before), &h, rr.step);
                    v.detail["trace"] = json!(crate::model::show::trace(&dn.data));
                    return CaseResult::Violation(v, rep);
                }
            }
        }
        // quiescence
        // streams are excluded: the last instruction of a stream fold runs for whichever value a peer
        // iterates last, which legitimately differs between peers (only the order of iterations may differ)
        let stream_last_instr = {
            let mut found = false;
            h.script.instr.visit(&mut |n| {
                if let crate::script::I::Fold { iterable: crate::script::Arg::Var { name, .. }, last: Some(l), .. } = n {
                    if (name.starts_with('$') || name.starts_with('%')) && **l != crate::script::I::Null {
                        found = true;
                    }
                }
            });
            found
        };
        // a particle addressed to a string that is not a peer of the simulation is dropped: not a delivered history
        if case.lit_args && (case.profile == 0 || !stream_last_instr) && h.quiescent && !h.inconclusive && h.dropped == 0 {
            if case.profile != 0 {
                rep.classes.push("quiescent_stream_script_checked".into());
            }
            let mut merged: Vec<u8> = vec![];
            let mut ok = true;
            for p in &h.peers {
                if p.prev.is_empty() {
                    continue;
                }
                let o = observe(&h.script, &h.particle, &merged, &p.prev);
                rep.evals += 1;
                if !is_new_data(o.ret_code) {
                    ok = false;
                    break;
                }
                merged = o.data;
            }
            if ok && !merged.is_empty() {
                if let Ok(d) = decode_data(&merged) {
                    rep.classes.push("quiescent_no_marks_checked".into());
                    // the observer itself marks the calls it reaches while merging: not part of the history
                    let obs_id = observer_key().id;
                    let obs_tail = obs_id[obs_id.len() - 4..].to_string();
                    let marks: Vec<String> = all_sent_marks(&d.data).into_iter().filter(|m| !m.ends_with(&format!("sent by {}", obs_tail))).collect();
                    if !marks.is_empty() {
                        let mut v = viol("C19:sent-but-never-executed", format!("every particle and call result was delivered, yet the merged final data still holds states marked as sent/requested: {:?}", marks), &h, h.log.len());
                        v.detail["trace"] = json!(crate::model::show::trace(&d.data));
                        return CaseResult::Violation(v, rep);
                    }
                }
            }
        }
        let peers_run: std::collections::BTreeSet<usize> = h.log.iter().map(|x| x.peer).collect();
        if h.script.feat.var_targets > 0 && peers_run.len() >= 3 {
            rep.nontrivial.push(fnv(format!("{}|{:?}", h.script.text, case.sched).as_bytes()));
        }
        rep.sample = Some(sample_of(&h));
        CaseResult::Ok(rep)
    }
}

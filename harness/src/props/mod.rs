pub mod hist;
pub mod faults;

pub mod hist;
pub mod faults;
pub mod hist2;
pub mod hist3;
pub mod c01;
pub mod pure;
pub mod parse;

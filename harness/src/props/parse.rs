//! C23: the parser is total and accepts only well-scoped scripts.

use crate::core::fnv;
use crate::engine::*;
use crate::gen::*;
use crate::model::scope;
use crate::props::c01::mutate_text;
use crate::script::*;
use proptest::prelude::*;
use serde::{Deserialize, Serialize};
use serde_json::{json, Value};

#[derive(Clone, Debug, Serialize, Deserialize)]
pub struct C23Case {
    pub sk: Sk,
    /// 0 Frag, 1 Stream, 2 Any
    pub profile: u8,
    /// 0 = as generated, 1 = one injected scoping error, 2 = token-level text mutation, 3 = raw text
    pub mode: u8,
    pub inject: [u16; 4],
    pub text_ops: Vec<[u16; 3]>,
    pub raw: String,
}

pub struct C23;

fn sigil(name: &str) -> &'static str {
    if name.starts_with("#%") {
        "#%"
    } else if name.starts_with('#') {
        "#"
    } else if name.starts_with('$') {
        "$"
    } else if name.starts_with('%') {
        "%"
    } else {
        ""
    }
}

/// inject one scoping error into a (valid) script; returns a label
pub fn inject_scope_error(i: &mut I, c: [u16; 4]) -> Option<&'static str> {
    let evs = scope_events(i);
    let n_uses = {
        let mut n = 0;
        let mut tmp = i.clone();
        for_each_arg_mut(&mut tmp, &mut |a| {
            if matches!(a, Arg::Var { .. }) {
                n += 1;
            }
        });
        n
    };
    match pick(c[0], 5) {
        0 | 1 => {
            // a use renamed to a never-defined name of the same sigil class
            if n_uses == 0 {
                return None;
            }
            let k = pick(c[1], n_uses);
            let mut idx = 0;
            for_each_arg_mut(i, &mut |a| {
                if let Arg::Var { name, .. } = a {
                    if idx == k {
                        *name = format!("{}undefined{}", sigil(name), c[2] % 10);
                    }
                    idx += 1;
                }
            });
            Some("undefined-name")
        }
        2 => {
            // a use renamed to a name that is only defined later in the text
            if n_uses == 0 {
                return None;
            }
            let k = pick(c[1], n_uses);
            // defs after the k-th use in token order
            let mut seen_uses = 0;
            let mut before: std::collections::BTreeSet<String> = Default::default();
            let mut later: Vec<String> = vec![];
            let mut orig_sigil = "";
            // recompute with var-uses only (lens scalar uses are counted in evs as uses too; walk in parallel)
            let mut tmp = i.clone();
            let mut names: Vec<String> = vec![];
            for_each_arg_mut(&mut tmp, &mut |a| {
                if let Arg::Var { name, .. } = a {
                    names.push(name.clone());
                }
            });
            let target = names.get(k)?.clone();
            let mut reached = false;
            for e in &evs {
                match e {
                    ScopeEv::Use(n) => {
                        if !reached && *n == target {
                            // the k-th var use is the (count)th occurrence of `target`
                            let occ_needed = names[..=k].iter().filter(|x| **x == target).count();
                            seen_uses += 1;
                            if seen_uses == occ_needed {
                                reached = true;
                                orig_sigil = sigil(n);
                            }
                        }
                    }
                    ScopeEv::Def(n) => {
                        if reached {
                            if !before.contains(n) && sigil(n) == orig_sigil && !later.contains(n) {
                                later.push(n.clone());
                            }
                        } else {
                            before.insert(n.clone());
                        }
                    }
                    _ => {}
                }
            }
            if later.is_empty() {
                return None;
            }
            let new_name = later[pick(c[2], later.len())].clone();
            let mut idx = 0;
            for_each_arg_mut(i, &mut |a| {
                if let Arg::Var { name, lens, .. } = a {
                    if idx == k {
                        *name = new_name.clone();
                        lens.clear();
                    }
                    idx += 1;
                }
            });
            Some("defined-only-later")
        }
        3 => {
            // next for a name that is not an enclosing iterator
            let mut n_next = 0;
            for_each_instr_mut(i, &mut |x| {
                if matches!(x, I::Next(_)) {
                    n_next += 1;
                }
            });
            if n_next == 0 {
                // wrap: add a stray next at the end
                let old = std::mem::replace(i, I::Null);
                *i = I::seq(old, I::Next(format!("stray{}", c[2] % 5)));
                return Some("stray-next");
            }
            let k = pick(c[1], n_next);
            let mut idx = 0;
            for_each_instr_mut(i, &mut |x| {
                if let I::Next(name) = x {
                    if idx == k {
                        *name = format!("notiter{}", c[2] % 5);
                    }
                    idx += 1;
                }
            });
            Some("next-wrong-iterator")
        }
        _ => {
            // an undefined scalar used as lens accessor
            if n_uses == 0 {
                return None;
            }
            let k = pick(c[1], n_uses);
            let mut idx = 0;
            let mut done = false;
            for_each_arg_mut(i, &mut |a| {
                if let Arg::Var { name, lens, length } = a {
                    if idx == k && !name.starts_with('$') && !name.starts_with('%') {
                        lens.push(LensStep::ByScalar(format!("undefidx{}", c[2] % 10)));
                        *length = false;
                        done = true;
                    }
                    idx += 1;
                }
            });
            if done {
                Some("undefined-lens-accessor")
            } else {
                None
            }
        }
    }
}

impl Property for C23 {
    type Case = C23Case;
    fn id(&self) -> &'static str {
        "C23"
    }
    fn rule(&self) -> String {
        "four input classes: generated scripts of all profiles (valid by construction), the same with ONE injected scoping error (undefined name, name defined only later in the text, next for a non-enclosing iterator, undefined scalar as lens accessor), token-level mutations of generated scripts (sigil changes, renames to other tokens, non-ASCII, lens fragments, unbalanced brackets, keyword swaps), and raw texts. Oracles: (1) parse returns (panic = violation); (2) Ok(tree) has no Instruction::Error / Fail::Error / ValueAccessor::Error; (3) independent scope walk over the returned tree: every use has a defining occurrence at a smaller text offset, every next is inside a fold with that iterator; (4) a script the generator-side analysis marks ill-scoped must be rejected. Non-trivial = accepted script with >= 2 nested fold/new scopes, or rejected script whose only problem is the injected one, or an accepted mutated text; distinct by text hash".into()
    }
    fn assumptions(&self) -> Vec<String> {
        vec![
            "\"defined earlier in the text\" is read literally: a definition at a smaller byte offset (an iterator name used after its fold counts as defined)".into(),
            "the source stream of canon may be undefined (docs/AIR.md: an undefined stream is empty)".into(),
            "stack overflow on pathological nesting is covered by C01's isolated workers, not here (nesting is bounded to ~200)".into(),
        ]
    }
    fn bounds(&self, tier: Tier) -> Value {
        json!({"skeleton_depth": tier.pick(6, 8), "skeleton_size": tier.pick(40, 80), "text_ops": "1..5", "raw_len": "0..60"})
    }
    fn cases(&self, tier: Tier) -> u32 {
        tier.pick(40_000, 2_000_000)
    }
    fn strategy(&self, tier: Tier) -> BoxedStrategy<C23Case> {
        (
            sk_strategy(tier.pick(6, 8), tier.pick(40, 80)),
            0u8..3,
            prop_oneof![3 => Just(0u8), 4 => Just(1u8), 4 => Just(2u8), 1 => Just(3u8)],
            any::<[u16; 4]>(),
            proptest::collection::vec(any::<[u16; 3]>(), 1..5),
            "[ -~()\\[\\]$#%.\"a-z0-9]{0,60}",
        )
            .prop_map(|(sk, profile, mode, inject, text_ops, raw)| C23Case { sk, profile, mode, inject, text_ops, raw })
            .boxed()
    }
    fn required_classes(&self) -> Vec<&'static str> {
        vec![
            "valid_accepted",
            "accepted_nested_scopes",
            "injected:undefined-name:rejected",
            "injected:defined-only-later:rejected",
            "injected:next-wrong-iterator:rejected",
            "injected:undefined-lens-accessor:rejected",
            "mutated_accepted",
            "mutated_rejected",
        ]
    }
    fn check(&self, case: &C23Case, _tier: Tier) -> CaseResult {
        let profile = match case.profile {
            0 => Profile::Frag,
            1 => Profile::Stream,
            _ => Profile::Any,
        };
        let mut cfg = GenCfg::new(profile);
        cfg.non_json = false;
        let script = elaborate(&case.sk, &cfg);
        let mut rep = CaseReport::default();
        let mut instr = script.instr.clone();
        let mut label: Option<&'static str> = None;
        let text = match case.mode {
            0 => script.text.clone(),
            1 => {
                label = inject_scope_error(&mut instr, case.inject);
                if label.is_none() {
                    return CaseResult::Discard("no injection site".into());
                }
                print(&instr)
            }
            2 => mutate_text(&script.text, &case.text_ops),
            _ => case.raw.clone(),
        };
        rep.evals = 1;
        let detail = |extra: Value| json!({"text": text, "mode": case.mode, "extra": extra});
        // (1) totality
        let parsed = std::panic::catch_unwind(|| air_parser::parse(&text).map(|t| (scope::analyse(&t), ())));
        let parsed = match parsed {
            Ok(p) => p,
            Err(_) => {
                let sig = crate::isolate::last_panic();
                return CaseResult::Violation(Violation { signature: format!("C23:parser-panics:{}", sig), message: format!("air_parser::parse panicked: {}", sig), detail: detail(json!({})) }, rep);
            }
        };
        match parsed {
            Ok((info, ())) => {
                // (2) + (3)
                let v = scope::violations(&info);
                if let Some((kind, msg)) = v.first() {
                    return CaseResult::Violation(
                        Violation { signature: format!("C23:accepted:{}", kind), message: format!("the parser accepted a script that is not well scoped: {}", msg), detail: detail(json!({"all": v.iter().map(|x| x.1.clone()).collect::<Vec<_>>()})) },
                        rep,
                    );
                }
                // (4) generator-side verdict
                if case.mode <= 1 {
                    if let Some(why) = ill_scoped(&instr) {
                        let l = label.unwrap_or("generator");
                        if case.mode == 0 {
                            return CaseResult::Discard(format!("generator produced an ill-scoped script: {}", why));
                        }
                        return CaseResult::Violation(
                            Violation { signature: format!("C23:accepted-ill-scoped:{}", l), message: format!("the parser accepted a script with an injected scoping error ({}): {}", l, why), detail: detail(json!({})) },
                            rep,
                        );
                    }
                }
                match case.mode {
                    0 => rep.classes.push("valid_accepted".into()),
                    1 => rep.classes.push(format!("injected:{}:still-well-scoped", label.unwrap_or("?"))),
                    2 => rep.classes.push("mutated_accepted".into()),
                    _ => rep.classes.push("raw_accepted".into()),
                }
                if info.max_scope_depth >= 2 {
                    rep.classes.push("accepted_nested_scopes".into());
                    rep.nontrivial.push(fnv(text.as_bytes()));
                } else if case.mode == 2 {
                    rep.nontrivial.push(fnv(text.as_bytes()));
                }
            }
            Err(report) => {
                if report.is_empty() {
                    return CaseResult::Violation(Violation { signature: "C23:empty-error-report".into(), message: "parse failed with an empty error report".into(), detail: detail(json!({})) }, rep);
                }
                match case.mode {
                    0 => {
                        // statistic only: the property does not promise acceptance
                        rep.classes.push("valid_rejected".into());
                    }
                    1 => {
                        let l = label.unwrap_or("?");
                        rep.classes.push(format!("injected:{}:rejected", l));
                        // the unmutated script parses, so the injected error is the only problem
                        if ill_scoped(&instr).is_some() {
                            rep.nontrivial.push(fnv(text.as_bytes()));
                        }
                    }
                    2 => rep.classes.push("mutated_rejected".into()),
                    _ => rep.classes.push("raw_rejected".into()),
                }
            }
        }
        rep.sample = Some(json!({"mode": case.mode, "label": label, "text": text}));
        CaseResult::Ok(rep)
    }
}

//! C23: the parser is total and accepts only well-scoped scripts.

use crate::core::fnv;
use crate::engine::*;
use crate::gen::*;
use crate::model::scope;
use crate::props::c01::mutate_text;
use crate::script::*;
use proptest::prelude::*;
use serde::{Deserialize, Serialize};
use serde_json::{json, Value};

#[derive(Clone, Debug, Serialize, Deserialize)]
pub struct C23Case {
    pub sk: Sk,
    /// 0 Frag, 1 Stream, 2 Any
    pub profile: u8,
    /// 0 = as generated, 1 = one injected scoping error, 2 = token-level text mutation, 3 = raw text
    pub mode: u8,
    pub inject: [u16; 4],
    pub text_ops: Vec<[u16; 3]>,
    pub raw: String,
}

pub struct C23;

fn sigil(name: &str) -> &'static str {
    if name.starts_with("#%") {
        "#%"
    } else if name.starts_with('#') {
        "#"
    } else if name.starts_with('$') {
        "$"
    } else if name.starts_with('%') {
        "%"
    } else {
        ""
    }
}

/// inject one scoping error into a (valid) script; returns a label
pub fn inject_scope_error(i: &mut I, c: [u16; 4]) -> Option<&'static str> {
    let evs = scope_events(i);
    let n_uses = {
        let mut n = 0;
        let mut tmp = i.clone();
        for_each_arg_mut(&mut tmp, &mut |a| {
            if matches!(a, Arg::Var { .. }) {
                n += 1;
            }
        });
        n
    };
    match pick(c[0], 6) {
        5 => {
            // an undefined operand of `fail` (scalar, scalar with lens, canon with lens) after the script
            let operand = match c[1] % 3 {
                0 => Arg::var(&format!("undefined{}", c[2] % 10)),
                1 => Arg::Var { name: format!("undefined{}", c[2] % 10), lens: vec![LensStep::Field("a".into())], length: false },
                _ => Arg::Var { name: format!("#undefined{}", c[2] % 10), lens: vec![LensStep::Idx(0)], length: false },
            };
            let old = std::mem::replace(i, I::Null);
            *i = I::seq(old, I::Fail(FailKind::Arg(operand)));
            Some("undefined-fail-operand")
        }
        0 | 1 => {
            // a use renamed to a never-defined name of the same sigil class
            if n_uses == 0 {
                return None;
            }
            let k = pick(c[1], n_uses);
            let mut idx = 0;
            for_each_arg_mut(i, &mut |a| {
                if let Arg::Var { name, .. } = a {
                    if idx == k {
                        *name = format!("{}undefined{}", sigil(name), c[2] % 10);
                    }
                    idx += 1;
                }
            });
            Some("undefined-name")
        }
        2 => {
            // a use renamed to a name that is only defined later in the text
            if n_uses == 0 {
                return None;
            }
            let k = pick(c[1], n_uses);
            // defs after the k-th use in token order
            let mut seen_uses = 0;
            let mut before: std::collections::BTreeSet<String> = Default::default();
            let mut later: Vec<String> = vec![];
            let mut orig_sigil = "";
            // recompute with var-uses only (lens scalar uses are counted in evs as uses too; walk in parallel)
            let mut tmp = i.clone();
            let mut names: Vec<String> = vec![];
            for_each_arg_mut(&mut tmp, &mut |a| {
                if let Arg::Var { name, .. } = a {
                    names.push(name.clone());
                }
            });
            let target = names.get(k)?.clone();
            let mut reached = false;
            for e in &evs {
                match e {
                    ScopeEv::Use(n) => {
                        if !reached && *n == target {
                            // the k-th var use is the (count)th occurrence of `target`
                            let occ_needed = names[..=k].iter().filter(|x| **x == target).count();
                            seen_uses += 1;
                            if seen_uses == occ_needed {
                                reached = true;
                                orig_sigil = sigil(n);
                            }
                        }
                    }
                    ScopeEv::Def(n) => {
                        if reached {
                            if !before.contains(n) && sigil(n) == orig_sigil && !later.contains(n) {
                                later.push(n.clone());
                            }
                        } else {
                            before.insert(n.clone());
                        }
                    }
                    _ => {}
                }
            }
            if later.is_empty() {
                return None;
            }
            let new_name = later[pick(c[2], later.len())].clone();
            let mut idx = 0;
            for_each_arg_mut(i, &mut |a| {
                if let Arg::Var { name, lens, .. } = a {
                    if idx == k {
                        *name = new_name.clone();
                        lens.clear();
                    }
                    idx += 1;
                }
            });
            Some("defined-only-later")
        }
        3 => {
            // next for a name that is not an enclosing iterator
            let mut n_next = 0;
            for_each_instr_mut(i, &mut |x| {
                if matches!(x, I::Next(_)) {
                    n_next += 1;
                }
            });
            if n_next == 0 {
                // wrap: add a stray next at the end
                let old = std::mem::replace(i, I::Null);
                *i = I::seq(old, I::Next(format!("stray{}", c[2] % 5)));
                return Some("stray-next");
            }
            let k = pick(c[1], n_next);
            let mut idx = 0;
            for_each_instr_mut(i, &mut |x| {
                if let I::Next(name) = x {
                    if idx == k {
                        *name = format!("notiter{}", c[2] % 5);
                    }
                    idx += 1;
                }
            });
            Some("next-wrong-iterator")
        }
        _ => {
            // an undefined scalar used as lens accessor
            if n_uses == 0 {
                return None;
            }
            let k = pick(c[1], n_uses);
            let mut idx = 0;
            let mut done = false;
            for_each_arg_mut(i, &mut |a| {
                if let Arg::Var { name, lens, length } = a {
                    if idx == k && !name.starts_with('$') && !name.starts_with('%') {
                        lens.push(LensStep::ByScalar(format!("undefidx{}", c[2] % 10)));
                        *length = false;
                        done = true;
                    }
                    idx += 1;
                }
            });
            if done {
                Some("undefined-lens-accessor")
            } else {
                None
            }
        }
    }
}

impl Property for C23 {
    type Case = C23Case;
    fn id(&self) -> &'static str {
        "C23"
    }
    fn rule(&self) -> String {
        "four input classes: generated scripts of all profiles (valid by construction), the same with ONE injected scoping error (undefined name, name defined only later in the text, next for a non-enclosing iterator, undefined scalar as lens accessor), token-level mutations of generated scripts (sigil changes, renames to other tokens, non-ASCII, lens fragments, unbalanced brackets, keyword swaps), and raw texts. Oracles: (1) parse returns (panic = violation); (2) Ok(tree) has no Instruction::Error / Fail::Error / ValueAccessor::Error; (3) independent scope walk over the returned tree: every use has a defining occurrence at a smaller text offset, every next is inside a fold with that iterator; (4) a script the generator-side analysis marks ill-scoped must be rejected. Non-trivial = accepted script with >= 2 nested fold/new scopes, or rejected script whose only problem is the injected one, or an accepted mutated text; distinct by text hash".into()
    }
    fn assumptions(&self) -> Vec<String> {
        vec![
            "\"defined earlier in the text\" is read literally: a definition at a smaller byte offset (an iterator name used after its fold counts as defined)".into(),
            "the source stream of canon may be undefined (docs/AIR.md: an undefined stream is empty)".into(),
            "stack overflow on pathological nesting is covered by C01's isolated workers, not here (nesting is bounded to ~200)".into(),
        ]
    }
    fn bounds(&self, tier: Tier) -> Value {
        json!({"skeleton_depth": tier.pick(6, 8), "skeleton_size": tier.pick(40, 80), "text_ops": "1..5", "raw_len": "0..60"})
    }
    fn cases(&self, tier: Tier) -> u32 {
        tier.pick(40_000, 2_000_000)
    }
    fn strategy(&self, tier: Tier) -> BoxedStrategy<C23Case> {
        (
            sk_strategy(tier.pick(6, 8), tier.pick(40, 80)),
            0u8..3,
            prop_oneof![3 => Just(0u8), 4 => Just(1u8), 4 => Just(2u8), 1 => Just(3u8)],
            any::<[u16; 4]>(),
            proptest::collection::vec(any::<[u16; 3]>(), 1..5),
            "[ -~()\\[\\]$#%.\"a-z0-9]{0,60}",
        )
            .prop_map(|(sk, profile, mode, inject, text_ops, raw)| C23Case { sk, profile, mode, inject, text_ops, raw })
            .boxed()
    }
    fn required_classes(&self) -> Vec<&'static str> {
        vec![
            "valid_accepted",
            "accepted_nested_scopes",
            "injected:undefined-name:rejected",
            "injected:defined-only-later:rejected",
            "injected:next-wrong-iterator:rejected",
            "injected:undefined-lens-accessor:rejected",
            "mutated_accepted",
            "mutated_rejected",
        ]
    }
    fn check(&self, case: &C23Case, _tier: Tier) -> CaseResult {
        let profile = match case.profile {
            0 => Profile::Frag,
            1 => Profile::Stream,
            _ => Profile::Any,
        };
        let mut cfg = GenCfg::new(profile);
        cfg.non_json = false;
        let script = elaborate(&case.sk, &cfg);
        let mut rep = CaseReport::default();
        let mut instr = script.instr.clone();
        let mut label: Option<&'static str> = None;
        let text = match case.mode {
            0 => script.text.clone(),
            1 => {
                label = inject_scope_error(&mut instr, case.inject);
                if label.is_none() {
                    return CaseResult::Discard("no injection site".into());
                }
                print(&instr)
            }
            2 => mutate_text(&script.text, &case.text_ops),
            _ => case.raw.clone(),
        };
        rep.evals = 1;
        let detail = |extra: Value| json!({"text": text, "mode": case.mode, "extra": extra});
        // (1) totality
        let parsed = std::panic::catch_unwind(|| air_parser::parse(&text).map(|t| (scope::analyse(&t), ())));
        let parsed = match parsed {
            Ok(p) => p,
            Err(_) => {
                let sig = crate::isolate::last_panic();
                return CaseResult::Violation(Violation { signature: format!("C23:parser-panics:{}", sig), message: format!("air_parser::parse panicked: {}", sig), detail: detail(json!({})) }, rep);
            }
        };
        match parsed {
            Ok((info, ())) => {
                // (2) + (3)
                let v = scope::violations(&info);
                if let Some((kind, msg)) = v.first() {
                    return CaseResult::Violation(
                        Violation { signature: format!("C23:accepted:{}", kind), message: format!("the parser accepted a script that is not well scoped: {}", msg), detail: detail(json!({"all": v.iter().map(|x| x.1.clone()).collect::<Vec<_>>()})) },
                        rep,
                    );
                }
                // (4) generator-side verdict
                if case.mode <= 1 {
                    if let Some(why) = ill_scoped(&instr) {
                        let l = label.unwrap_or("generator");
                        if case.mode == 0 {
                            return CaseResult::Discard(format!("generator produced an ill-scoped script: {}", why));
                        }
                        return CaseResult::Violation(
                            Violation { signature: format!("C23:accepted-ill-scoped:{}", l), message: format!("the parser accepted a script with an injected scoping error ({}): {}", l, why), detail: detail(json!({})) },
                            rep,
                        );
                    }
                }
                match case.mode {
                    0 => rep.classes.push("valid_accepted".into()),
                    1 => rep.classes.push(format!("injected:{}:still-well-scoped", label.unwrap_or("?"))),
                    2 => rep.classes.push("mutated_accepted".into()),
                    _ => rep.classes.push("raw_accepted".into()),
                }
                if info.max_scope_depth >= 2 {
                    rep.classes.push("accepted_nested_scopes".into());
                    rep.nontrivial.push(fnv(text.as_bytes()));
                } else if case.mode == 2 {
                    rep.nontrivial.push(fnv(text.as_bytes()));
                }
            }
            Err(report) => {
                if report.is_empty() {
                    return CaseResult::Violation(Violation { signature: "C23:empty-error-report".into(), message: "parse failed with an empty error report".into(), detail: detail(json!({})) }, rep);
                }
                match case.mode {
                    0 => {
                        // statistic only: the property does not promise acceptance
                        rep.classes.push("valid_rejected".into());
                    }
                    1 => {
                        let l = label.unwrap_or("?");
                        rep.classes.push(format!("injected:{}:rejected", l));
                        // the unmutated script parses, so the injected error is the only problem
                        if ill_scoped(&instr).is_some() {
                            rep.nontrivial.push(fnv(text.as_bytes()));
                        }
                    }
                    2 => rep.classes.push("mutated_rejected".into()),
                    _ => rep.classes.push("raw_rejected".into()),
                }
            }
        }
        rep.sample = Some(json!({"mode": case.mode, "label": label, "text": text}));
        CaseResult::Ok(rep)
    }
}

// ------------------------------------------------------------------------------ C28

#[derive(Clone, Debug, Serialize, Deserialize)]
pub struct C28Case {
    pub sk: Sk,
    pub profile: u8,
    pub indent: u8,
    pub patterns: bool,
    /// where to splice hopon-shaped `new` nests: choice numbers
    pub hops: Vec<[u16; 2]>,
}

pub struct C28;

/// expected rendering, written from the property text and the documented output format:
/// (nesting depth, line text with commas removed)
fn expected_lines(i: &I, depth: usize, patterns: bool, out: &mut Vec<(usize, String)>) {
    match i {
        I::Call { peer, svc, func, args, out: o } => {
            let a: Vec<String> = args.iter().map(|x| x.to_string()).collect();
            let mut line = format!("call {} ({} {}) [{}]", peer, svc, func, a.join(" "));
            if let Some(o) = o {
                line = format!("{} {}", line, o);
            }
            out.push((depth, line));
        }
        I::Seq(a, b) => {
            expected_lines(a, depth, patterns, out);
            expected_lines(b, depth, patterns, out);
        }
        I::Par(a, b) => {
            out.push((depth, "par:".into()));
            expected_lines(a, depth + 1, patterns, out);
            out.push((depth, "|".into()));
            expected_lines(b, depth + 1, patterns, out);
        }
        I::Xor(a, b) => {
            out.push((depth, "try:".into()));
            expected_lines(a, depth + 1, patterns, out);
            out.push((depth, "catch:".into()));
            expected_lines(b, depth + 1, patterns, out);
        }
        I::Match(a, b, body) => {
            out.push((depth, format!("match {} {}:", a, b)));
            expected_lines(body, depth + 1, patterns, out);
        }
        I::Mismatch(a, b, body) => {
            out.push((depth, format!("mismatch {} {}:", a, b)));
            expected_lines(body, depth + 1, patterns, out);
        }
        I::Fail(FailKind::Lit(c, m)) => out.push((depth, format!("fail {} \"{}\"", c, m))),
        I::Fail(FailKind::Arg(a)) => out.push((depth, format!("fail {}", a))),
        I::Null => out.push((depth, "null".into())),
        I::Never => out.push((depth, "never".into())),
        I::Ap { src, dst } => out.push((depth, format!("ap {} {}", src, dst))),
        I::ApMap { key, val, map } => out.push((depth, format!("ap ({} {}) {}", key, val, map))),
        I::New { var, body } => {
            if patterns {
                // virtual hopon: (new $s (new #c (canon P $s #c))), P not the canon itself
                if let I::New { var: inner, body: b2 } = &**body {
                    if let I::Canon { peer, src, dst } = &**b2 {
                        let shadows = matches!(peer, Arg::Var { name, .. } if name == dst);
                        if var.starts_with('$') && inner.starts_with('#') && !inner.starts_with("#%") && src == var && dst == inner && !shadows {
                            out.push((depth, format!("hopon {}", peer)));
                            return;
                        }
                    }
                }
            }
            out.push((depth, format!("new {}:", var)));
            expected_lines(body, depth + 1, patterns, out);
        }
        I::Fold { iterable, iter, body, last } => {
            out.push((depth, format!("fold {} {}:", iterable, iter)));
            expected_lines(body, depth + 1, patterns, out);
            if let Some(l) = last {
                out.push((depth, "last:".into()));
                expected_lines(l, depth + 1, patterns, out);
            }
        }
        I::Next(it) => out.push((depth, format!("next {}", it))),
        I::Canon { peer, src, dst } => out.push((depth, format!("canon {} {} {}", peer, src, dst))),
    }
}

/// normalise an output line: strip the indentation, drop commas, move `x <- ` to the end
fn read_line(line: &str) -> (usize, String) {
    let indent = line.len() - line.trim_start_matches(' ').len();
    let mut t = line.trim().replace(',', "");
    if let Some(pos) = t.find(" <- ") {
        let lhs = t[..pos].to_string();
        t = format!("{} {}", &t[pos + 4..], lhs);
    }
    let t = t.split_whitespace().collect::<Vec<_>>().join(" ");
    (indent, t)
}

impl Property for C28 {
    type Case = C28Case;
    fn id(&self) -> &'static str {
        "C28"
    }
    fn rule(&self) -> String {
        "generated parser-accepted scripts of all profiles (plus spliced hopon-shaped `new` nests) x indent step 0..8 x patterns on/off; the beautified text is read back line by line (indentation, commas dropped, `x <- call` normalised) and compared with an independent rendering of the generator's own tree: same instructions in the same order, indentation = nesting depth x step with seq flattened, par:/|, try:/catch:, fold ..:/last:, new ..:, match ..:, operands as printed in the script. Non-trivial = script with >= 3 levels of nesting and >= 8 output lines; distinct by (text, indent, patterns) hash".into()
    }
    fn assumptions(&self) -> Vec<String> {
        vec!["generated literals contain no spaces, quotes or commas; lens paths are written in the canonical `.$.a.[0]` form".into()]
    }
    fn bounds(&self, tier: Tier) -> Value {
        json!({"skeleton_depth": tier.pick(6, 8), "skeleton_size": tier.pick(40, 80), "indent": "0..8"})
    }
    fn cases(&self, tier: Tier) -> u32 {
        tier.pick(500_000, 10_000_000)
    }
    fn strategy(&self, tier: Tier) -> BoxedStrategy<C28Case> {
        (sk_strategy(tier.pick(6, 8), tier.pick(40, 80)), 0u8..3, 0u8..=8, any::<bool>(), proptest::collection::vec(any::<[u16; 2]>(), 0..3))
            .prop_map(|(sk, profile, indent, patterns, hops)| C28Case { sk, profile, indent, patterns, hops })
            .boxed()
    }
    fn required_classes(&self) -> Vec<&'static str> {
        vec!["hopon_rendered", "hopon_shape_plain", "has_last", "has_par", "has_xor", "indent_0", "depth_ge_3"]
    }
    fn check(&self, case: &C28Case, _tier: Tier) -> CaseResult {
        let profile = match case.profile {
            0 => Profile::Frag,
            1 => Profile::Stream,
            _ => Profile::Any,
        };
        let cfg = GenCfg::new(profile);
        let script = elaborate(&case.sk, &cfg);
        let mut instr = script.instr.clone();
        // splice hopon-shaped nests
        for (k, h) in case.hops.iter().enumerate() {
            let peer = match h[0] % 3 {
                0 => Arg::InitPeer,
                1 => Arg::Str(script.peers[pick(h[1], script.peers.len())].id.clone()),
                _ => Arg::Str("relay".into()),
            };
            let s = format!("$hop{}", k);
            let c = format!("#hopc{}", k);
            let hop = I::New { var: s.clone(), body: Box::new(I::New { var: c.clone(), body: Box::new(I::Canon { peer, src: s, dst: c }) }) };
            let old = std::mem::replace(&mut instr, I::Null);
            instr = if h[1] % 2 == 0 { I::seq(hop, old) } else { I::seq(old, hop) };
        }
        let text = print(&instr);
        let mut rep = CaseReport::default();
        rep.evals = 1;
        let mut outbuf: Vec<u8> = vec![];
        let res = {
            let mut b = air_beautifier::Beautifier::new_with_indent(&mut outbuf, case.indent as usize);
            if case.patterns {
                b = b.enable_all_patterns();
            }
            std::panic::catch_unwind(std::panic::AssertUnwindSafe(|| b.beautify(&text)))
        };
        let detail = |extra: Value| json!({"script": text, "indent": case.indent, "patterns": case.patterns, "extra": extra});
        match res {
            Err(_) => {
                return CaseResult::Violation(Violation { signature: "C28:beautifier-panics".into(), message: format!("beautify panicked: {}", crate::isolate::last_panic()), detail: detail(json!({})) }, rep)
            }
            Ok(Err(_)) => return CaseResult::Discard("parser rejects the generated script".into()),
            Ok(Ok(())) => {}
        }
        let output = String::from_utf8_lossy(&outbuf).to_string();
        let got: Vec<(usize, String)> = output.lines().map(read_line).collect();
        let mut exp: Vec<(usize, String)> = vec![];
        expected_lines(&instr, 0, case.patterns, &mut exp);
        let step = case.indent as usize;
        let norm = |s: &str| s.split_whitespace().collect::<Vec<_>>().join(" ");
        for (k, (d, line)) in exp.iter().enumerate() {
            match got.get(k) {
                None => {
                    return CaseResult::Violation(Violation { signature: "C28:instruction-missing".into(), message: format!("output ends after {} lines; expected line {}: {:?}", got.len(), k + 1, line), detail: detail(json!({"output": output})) }, rep)
                }
                Some((gi, gl)) => {
                    if *gl != norm(line) {
                        return CaseResult::Violation(
                            Violation { signature: "C28:line-differs".into(), message: format!("line {}: expected {:?} but the beautifier printed {:?}", k + 1, norm(line), gl), detail: detail(json!({"output": output})) },
                            rep,
                        );
                    }
                    if *gi != d * step {
                        return CaseResult::Violation(
                            Violation { signature: "C28:indentation-differs".into(), message: format!("line {} ({:?}): nesting depth {} x step {} expected, found {} spaces", k + 1, gl, d, step, gi), detail: detail(json!({"output": output})) },
                            rep,
                        );
                    }
                }
            }
        }
        if got.len() > exp.len() {
            return CaseResult::Violation(Violation { signature: "C28:extra-lines".into(), message: format!("the beautifier printed {} lines for {} expected; first extra: {:?}", got.len(), exp.len(), got[exp.len()]), detail: detail(json!({"output": output})) }, rep);
        }
        let maxd = exp.iter().map(|x| x.0).max().unwrap_or(0);
        if exp.iter().any(|x| x.1.starts_with("hopon ")) {
            rep.classes.push("hopon_rendered".into());
        }
        if !case.patterns && !case.hops.is_empty() {
            rep.classes.push("hopon_shape_plain".into());
        }
        for (c, pat) in [("has_last", "last:"), ("has_par", "par:"), ("has_xor", "try:")] {
            if exp.iter().any(|x| x.1 == pat) {
                rep.classes.push(c.into());
            }
        }
        if step == 0 {
            rep.classes.push("indent_0".into());
        }
        if maxd >= 3 {
            rep.classes.push("depth_ge_3".into());
            if exp.len() >= 8 {
                rep.nontrivial.push(fnv(format!("{}|{}|{}", text, step, case.patterns).as_bytes()));
            }
        }
        rep.sample = Some(json!({"script": text, "indent": step, "patterns": case.patterns, "output": output}));
        CaseResult::Ok(rep)
    }
}

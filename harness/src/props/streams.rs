//! C11 (a canonicalized stream is fixed once and identical everywhere) and
//! C13 (streams hold exactly the merged appends; stream folds visit each value once).
//! Both use one dedicated scenario generator (appends from several peers, a canon at a designated
//! peer with probes on two other peers, late appends, a fold with a visit call, a local canon).

use crate::core::*;
use crate::engine::*;
use crate::gen::{peers_for, pick, Script};
use crate::script::*;
use crate::sim::*;
use air_interpreter_data::{CallResult, CanonResult, ExecutedState, InterpreterData, ValueRef};
use proptest::prelude::*;
use serde::{Deserialize, Serialize};
use serde_json::{json, Value};
use std::collections::{BTreeMap, BTreeSet};

#[derive(Clone, Debug, Serialize, Deserialize)]
pub struct StreamCase {
    /// early appends: (peer, combinator with the previous ones: 0 seq / 1 par, unused)
    pub appends: Vec<[u16; 2]>,
    /// appends that run in parallel with the probes, after the canon instruction
    pub late: Vec<[u16; 2]>,
    /// designated canon peer, probe peers, folding peer
    pub roles: [u16; 4],
    /// 0 = no recursion, 1 = the fold body appends one more value for some elements
    pub recursive: u8,
    /// fold shape: 0 = (par body (next)), 1 = (seq body (next)) [C13 visits need every iteration: par only is asserted]
    pub shape: u8,
    pub n_peers: u8,
    pub sched: Vec<u16>,
    /// 1 = another fold over $s runs at F before the visiting fold (it leaves an empty generation behind: F19)
    #[serde(default)]
    pub prefold: u8,
}

pub fn stream_case_strategy() -> BoxedStrategy<StreamCase> {
    (
        proptest::collection::vec(any::<[u16; 2]>(), 1..5),
        proptest::collection::vec(any::<[u16; 2]>(), 0..3),
        any::<[u16; 4]>(),
        0u8..3,
        0u8..4,
        4u8..=5,
        proptest::collection::vec(any::<u16>(), 0..40),
        0u8..3,
    )
        .prop_map(|(appends, late, roles, recursive, shape, n_peers, sched, prefold)| StreamCase { appends, late, roles, recursive: recursive % 3, shape: (shape == 0) as u8, n_peers, sched, prefold: (prefold == 0) as u8 })
        .boxed()
}

fn lit_call(peer: &str, svc: &str, func: &str, args: Vec<Arg>, out: Option<&str>) -> I {
    I::Call { peer: Arg::Str(peer.into()), svc: Arg::Str(svc.into()), func: Arg::Str(func.into()), args, out: out.map(|s| s.into()) }
}

pub struct Scenario {
    pub script: Script,
    pub designated: usize,
    pub folder: usize,
    pub probes: (usize, usize),
}

pub fn build(case: &StreamCase) -> Scenario {
    let n = case.n_peers.clamp(4, 5) as usize;
    let peers = peers_for(n);
    let mut services: BTreeMap<String, Ret> = BTreeMap::new();
    let d = pick(case.roles[0], n);
    // folder differs from the designated peer so that the two canons can be told apart by their tetraplet
    let f = (d + 1 + pick(case.roles[3], n - 1)) % n;
    let q1 = pick(case.roles[1], n);
    let q2 = pick(case.roles[2], n);
    let mut appends: Option<I> = None;
    for (j, a) in case.appends.iter().enumerate() {
        let func = format!("a{}", j);
        services.insert(func.clone(), Ret::Const(json!({"a": format!("early-{}", j), "n": j % 2, "p": peers[pick(a[1].wrapping_mul(31), n)].id})));
        let c = if a[1] % 3 == 2 {
            // the append is an `ap` of a scalar call result (it runs on every peer that has the result)
            let v = format!("e{}", j);
            I::seq(lit_call(&peers[pick(a[0], n)].id, "app", &func, vec![], Some(&v)), I::Ap { src: Arg::var(&v), dst: "$s".into() })
        } else {
            lit_call(&peers[pick(a[0], n)].id, "app", &func, vec![], Some("$s"))
        };
        appends = Some(match appends {
            None => c,
            Some(prev) => {
                if a[1] % 2 == 0 {
                    I::seq(prev, c)
                } else {
                    I::par(prev, c)
                }
            }
        });
    }
    let mut late: Vec<I> = vec![];
    for (j, a) in case.late.iter().enumerate() {
        let func = format!("late{}", j);
        services.insert(func.clone(), Ret::Const(json!({"a": format!("late-{}", j), "n": 5, "p": peers[0].id})));
        late.push(lit_call(&peers[pick(a[0], n)].id, "app", &func, vec![], Some("$s")));
    }
    services.insert("p1".into(), Ret::Str);
    services.insert("p2".into(), Ret::Str);
    services.insert("ploc".into(), Ret::Str);
    services.insert("v".into(), Ret::Str);
    // the recursive append depends on its trigger (unique value) and goes 2-3 levels deep; each
    // level runs on the peer named by its trigger, so the folding peer replays some rounds from
    // merged data and produces others itself
    services.insert("rec".into(), Ret::RecChain(2 + (case.roles[3] % 2) as u8, peers.iter().map(|p| p.id.clone()).collect()));
    let canon = I::Canon { peer: Arg::Str(peers[d].id.clone()), src: "$s".into(), dst: "#can".into() };
    let probes = I::par(lit_call(&peers[q1].id, "probe", "p1", vec![Arg::var("#can")], None), lit_call(&peers[q2].id, "probe", "p2", vec![Arg::var("#can")], None));
    let mut after_canon = probes;
    for l in late {
        after_canon = I::par(after_canon, l);
    }
    let visit = lit_call(&peers[f].id, "visit", "v", vec![Arg::var("i")], None);
    let rec_target = if case.recursive == 2 {
        // multi-peer recursion: every level runs on the peer named by its trigger
        Arg::Var { name: "i".into(), lens: vec![LensStep::Field("p".into())], length: false }
    } else {
        // all recursion levels run on the folding peer itself
        Arg::Str(peers[f].id.clone())
    };
    let body = if case.recursive >= 1 {
        // elements with n == 0 trigger one more append (whose n == 7 ends the recursion)
        let rec = I::xor(I::Match(Arg::Var { name: "i".into(), lens: vec![LensStep::Field("n".into())], length: false }, Arg::Num(0), Box::new(I::Call { peer: rec_target, svc: Arg::Str("app".into()), func: Arg::Str("rec".into()), args: vec![Arg::var("i")], out: Some("$s".into()) })), I::Null);
        I::seq(visit, rec)
    } else {
        visit
    };
    let fold_body = if case.shape == 1 { I::par(body, I::Next("i".into())) } else { I::seq(body, I::Next("i".into())) };
    let fold = I::Fold { iterable: Arg::var("$s"), iter: "i".into(), body: Box::new(fold_body), last: Some(Box::new(I::Null)) };
    let local = I::seq(I::Canon { peer: Arg::Str(peers[f].id.clone()), src: "$s".into(), dst: "#loc".into() }, lit_call(&peers[f].id, "probe", "ploc", vec![Arg::var("#loc")], None));
    services.insert("pv".into(), Ret::Str);
    let fold = if case.prefold == 1 {
        let pre = I::Fold { iterable: Arg::var("$s"), iter: "j".into(), body: Box::new(I::par(lit_call(&peers[f].id, "pre", "pv", vec![Arg::var("j")], None), I::Next("j".into()))), last: Some(Box::new(I::Null)) };
        I::seq(pre, fold)
    } else {
        fold
    };
    let instr = I::seq_all(vec![appends.unwrap_or(I::Null), canon, after_canon, fold, local]);
    let text = print(&instr);
    Scenario { script: Script { instr, text, peers, services, feat: Default::default() }, designated: d, folder: f, probes: (q1, q2) }
}

/// value of a stream-valued call state (JSON), via the stores
fn stream_value(d: &InterpreterData, st: &ExecutedState) -> Option<(Value, u32)> {
    if let ExecutedState::Call(CallResult::Executed(ValueRef::Stream { cid, generation })) = st {
        let sr = d.cid_info.service_result_store.get(cid)?;
        let raw = d.cid_info.value_store.get(&sr.value_cid)?;
        let v: Value = serde_json::from_str(&crate::model::data::raw_text(&raw)).ok()?;
        return Some((v, usize::from(*generation) as u32));
    }
    None
}

/// value of a scalar call state
fn scalar_value(d: &InterpreterData, st: &ExecutedState) -> Option<Value> {
    if let ExecutedState::Call(CallResult::Executed(ValueRef::Scalar(cid))) = st {
        let sr = d.cid_info.service_result_store.get(cid)?;
        let raw = d.cid_info.value_store.get(&sr.value_cid)?;
        return serde_json::from_str(&crate::model::data::raw_text(&raw)).ok();
    }
    None
}

/// value appended to $s by the state at position `i`: a stream-valued call state, or an `ap`
/// state — the scenario scripts use `ap` only as `(seq (call .. v) (ap v $s))`, whose two states
/// are adjacent in every trace, so the appended value is the scalar result right before it
fn appended_at(d: &InterpreterData, i: usize) -> Option<(Value, u32)> {
    let st = &d.trace[(i as u32).into()];
    if let Some(x) = stream_value(d, st) {
        return Some(x);
    }
    if let ExecutedState::Ap(a) = st {
        if i > 0 {
            if let (Some(g), Some(v)) = (a.res_generations.first(), scalar_value(d, &d.trace[((i - 1) as u32).into()])) {
                return Some((v, usize::from(*g) as u32));
            }
        }
    }
    None
}

/// (position, canon cid, tetraplet peer, values)
fn canons(d: &InterpreterData) -> Vec<(usize, String, String, Vec<Value>)> {
    let mut out = vec![];
    for (i, st) in d.trace.iter().enumerate() {
        if let ExecutedState::Canon(CanonResult::Executed(c)) = st {
            if let Some(r) = d.cid_info.canon_result_store.get(c) {
                let peer = d.cid_info.tetraplet_store.get(&r.tetraplet).map(|t| t.peer_pk.clone()).unwrap_or_default();
                let mut vals = vec![];
                for e in &r.values {
                    if let Some(el) = d.cid_info.canon_element_store.get(e) {
                        if let Some(raw) = d.cid_info.value_store.get(&el.value) {
                            vals.push(serde_json::from_str(&crate::model::data::raw_text(&raw)).unwrap_or(Value::Null));
                        }
                    }
                }
                out.push((i, c.get_inner().to_string(), peer, vals));
            }
        }
    }
    out
}

/// stream values at positions before `upto`, in (generation, position) order
fn stream_before(d: &InterpreterData, upto: usize) -> Vec<Value> {
    let mut v: Vec<(u32, usize, Value)> = vec![];
    for i in 0..d.trace.len().min(upto) {
        if let Some((val, g)) = appended_at(d, i) {
            v.push((g, i, val));
        }
    }
    v.sort_by(|a, b| (a.0, a.1).cmp(&(b.0, b.1)));
    v.into_iter().map(|x| x.2).collect()
}

fn viol(sig: &str, msg: String, sc: &Scenario, log: &[RunRecord], step: usize) -> Violation {
    Violation { signature: sig.to_string(), message: msg, detail: json!({"step": step, "script": sc.script.text, "actions": log.iter().map(|r| action_json(&r.action)).collect::<Vec<_>>()}) }
}

fn run_scenario(case: &StreamCase) -> (Scenario, Vec<RunRecord>, Vec<PeerState>, bool) {
    let sc = build(case);
    let (log, peers, quiescent) = {
        let mut sim = Sim::new(&sc.script);
        sim.run_schedule(&case.sched);
        let q = sim.quiescent() && !sim.inconclusive;
        (std::mem::take(&mut sim.log), std::mem::take(&mut sim.peers), q)
    };
    (sc, log, peers, quiescent)
}

pub fn run_for_trace(case: &StreamCase) -> (Scenario, Vec<RunRecord>) {
    let (sc, log, _, _) = run_scenario(case);
    (sc, log)
}

fn multiset(v: &[Value]) -> BTreeMap<String, usize> {
    let mut m = BTreeMap::new();
    for x in v {
        *m.entry(x.to_string()).or_insert(0) += 1;
    }
    m
}

// ------------------------------------------------------------------------------ C11

pub struct C11;

impl Property for C11 {
    type Case = StreamCase;
    fn id(&self) -> &'static str {
        "C11"
    }
    fn rule(&self) -> String {
        "scenario scripts: 1..4 appends to $s from generated peers (call output, or call into a scalar followed by ap) combined by seq/par, `(canon D $s #can)` at a designated peer D, two probe calls `[#can]` on generated peers in parallel with 0..2 late appends, a fold over $s and a local canon at another peer; 4-5 peers, random schedules with duplicates and late results. Oracles: (a) over all data of the history the canon results attributed to D carry one single content id; (b) every probe invocation receives the same array; (c) that array equals the stream values D's data held before the canon state in the run that first produced it, in (generation, trace position) order. Non-trivial = a value was appended to the stream after the canon was fixed (some later data holds more stream values than the canon), distinct by (script, schedule) hash".into()
    }
    fn assumptions(&self) -> Vec<String> {
        vec!["stream values are produced by calls, or by `(seq (call P .. v) (ap v $s))`: an ap state carries no content, but the two states of that pair are adjacent in every trace, so the appended value is read from the scalar result right before the ap state".into()]
    }
    fn bounds(&self, _tier: Tier) -> Value {
        json!({"early_appends": "1..4", "late_appends": "0..2", "peers": "4..5", "schedule_len": 40})
    }
    fn cases(&self, tier: Tier) -> u32 {
        tier.pick(40_000, 800_000)
    }
    fn strategy(&self, _tier: Tier) -> BoxedStrategy<StreamCase> {
        stream_case_strategy()
    }
    fn required_classes(&self) -> Vec<&'static str> {
        vec!["canon_fixed", "appended_after_canon", "both_probes_ran", "canon_with_partial_stream", "redelivery"]
    }
    fn check(&self, case: &StreamCase, _tier: Tier) -> CaseResult {
        let (sc, log, _peers, _q) = run_scenario(case);
        let mut rep = CaseReport::default();
        rep.evals = log.len() as u64;
        let did = sc.script.peers[sc.designated].id.clone();
        let mut fixed: Option<(String, Vec<Value>)> = None;
        let mut expected_at_first: Option<Vec<Value>> = None;
        let mut max_stream_len = 0usize;
        if log.iter().any(|r| matches!(r.action, Action::Redeliver(..))) {
            rep.classes.push("redelivery".into());
        }
        for r in &log {
            if r.out.ret_code == 1 {
                return CaseResult::Discard("parser rejects the scenario".into());
            }
            if !is_new_data(r.out.ret_code) {
                continue;
            }
            let d = match decode_data(&r.out.data) {
                Ok(d) => d,
                Err(_) => continue,
            };
            max_stream_len = max_stream_len.max(stream_before(&d.data, d.data.trace.len()).len());
            for (pos, cid, peer, vals) in canons(&d.data) {
                if peer != did {
                    continue;
                }
                match &fixed {
                    None => {
                        // first appearance must be on D itself
                        if r.peer != sc.designated {
                            return CaseResult::Violation(viol("C11:canon-first-seen-elsewhere", format!("the canon result of D first appears in the data of peer {}", sc.script.peers[r.peer].name), &sc, &log, r.step), rep);
                        }
                        let exp = stream_before(&d.data, pos);
                        if exp != vals {
                            let mut v = viol("C11:canon-not-the-known-values", format!("D canonicalized {:?} but its data held {:?} before the canon entry (generation, position order)", vals, exp), &sc, &log, r.step);
                            v.detail["trace"] = json!(crate::model::show::trace(&d.data));
                            return CaseResult::Violation(v, rep);
                        }
                        expected_at_first = Some(exp);
                        fixed = Some((cid.clone(), vals.clone()));
                        rep.classes.push("canon_fixed".into());
                    }
                    Some((c0, v0)) => {
                        if *c0 != cid {
                            let mut v = viol("C11:canon-changed", format!("peer {} holds canon {} = {:?} but it was fixed as {} = {:?}", sc.script.peers[r.peer].name, &cid[cid.len() - 6..], vals, &c0[c0.len() - 6..], v0), &sc, &log, r.step);
                            v.detail["trace"] = json!(crate::model::show::trace(&d.data));
                            return CaseResult::Violation(v, rep);
                        }
                    }
                }
            }
        }
        // probes
        let mut probe_args: Vec<(String, Value)> = vec![];
        for r in &log {
            if let Ok(reqs) = &r.out.requests {
                for q in reqs.values() {
                    if q.function == "p1" || q.function == "p2" {
                        probe_args.push((q.function.clone(), q.args.first().cloned().unwrap_or(Value::Null)));
                    }
                }
            }
        }
        for (f, a) in &probe_args {
            match &fixed {
                Some((_, v0)) => {
                    if *a != Value::Array(v0.clone()) {
                        return CaseResult::Violation(viol("C11:probe-sees-other-value", format!("probe {} received {} but the canon was fixed as {:?}", f, a, v0), &sc, &log, 0), rep);
                    }
                }
                None => return CaseResult::Violation(viol("C11:probe-before-canon", format!("probe {} ran although no canon result exists in any data", f), &sc, &log, 0), rep),
            }
        }
        let fns: BTreeSet<&String> = probe_args.iter().map(|x| &x.0).collect();
        if fns.len() == 2 {
            rep.classes.push("both_probes_ran".into());
        }
        if let Some((_, v0)) = &fixed {
            if max_stream_len > v0.len() {
                rep.classes.push("appended_after_canon".into());
                rep.nontrivial.push(fnv(format!("{}|{:?}", sc.script.text, case.sched).as_bytes()));
            }
            if v0.len() < case.appends.len() {
                rep.classes.push("canon_with_partial_stream".into());
            }
        }
        let _ = expected_at_first;
        rep.sample = Some(json!({"script": sc.script.text, "canon": fixed.as_ref().map(|x| x.1.clone()), "probe_invocations": probe_args.len(), "runs": log.len()}));
        CaseResult::Ok(rep)
    }
}

// ------------------------------------------------------------------------------ C13

pub struct C13;

impl Property for C13 {
    type Case = StreamCase;
    fn id(&self) -> &'static str {
        "C13"
    }
    fn rule(&self) -> String {
        "the same scenario scripts: appends from several peers (call output or call + ap), `(fold $s i (par|seq BODY (next i)))` at peer F (in a third of the cases preceded by another par-next fold over $s at F), then a local `(canon F $s #loc)` with a probe. BODY is `(call F (\"visit\" \"v\") [i])`, in two thirds of the cases followed by a recursive append `(xor (match i.$.n 0 (call T (\"app\" \"rec\") [i] $s)) (null))` whose result depends on its trigger and recurses 2-3 levels deep; T is F itself (mode 1) or the peer named by the element, `i.$.p` (mode 2: recursion levels produced on several peers and merged back). Oracles: (1) F never visits a value twice (no two visit requests with the same argument); (2a) with the par-next shape every stream value of the data delivered to F is in the data F produces from it; (2) with the par-next shape, once everything is delivered the visited values are exactly the stream values in F's final data (including late and recursive appends), each once; (3) the local canon holds exactly the stream values F's data held before the canon entry in the run that produced it (as multisets: nothing duplicated or lost by merging), and the probe receives them. Non-trivial = F received the stream values in >= 2 deliveries and visited >= 3 values; distinct by (script, schedule) hash".into()
    }
    fn assumptions(&self) -> Vec<String> {
        vec!["values are unique by construction (one service function per append; the recursive append is a hash of its trigger and level)".into(), "the seq-next shape may legitimately stop at a pending visit: completeness (2) is asserted for the par-next shape only".into()]
    }
    fn bounds(&self, _tier: Tier) -> Value {
        json!({"early_appends": "1..4", "late_appends": "0..2", "peers": "4..5", "schedule_len": 40, "recursive": "none / on F / on the peer named by the element, a third each; depth 2..3"})
    }
    fn cases(&self, tier: Tier) -> u32 {
        tier.pick(40_000, 800_000)
    }
    fn strategy(&self, _tier: Tier) -> BoxedStrategy<StreamCase> {
        stream_case_strategy()
    }
    fn required_classes(&self) -> Vec<&'static str> {
        vec!["visits_complete_checked", "recursive_append_visited", "recursive_append_visited_after_an_earlier_fold", "append_by_ap", "local_canon_checked", "folder_got_values_in_2_deliveries", "late_append_visited"]
    }
    fn check(&self, case: &StreamCase, _tier: Tier) -> CaseResult {
        let (sc, log, peers, quiescent) = run_scenario(case);
        let mut rep = CaseReport::default();
        rep.evals = log.len() as u64;
        let fid = sc.script.peers[sc.folder].id.clone();
        // (1) visits
        let mut visited: Vec<Value> = vec![];
        for r in &log {
            if r.out.ret_code == 1 {
                return CaseResult::Discard("parser rejects the scenario".into());
            }
            if let Ok(reqs) = &r.out.requests {
                for q in reqs.values() {
                    if q.function == "v" {
                        if r.peer != sc.folder {
                            return CaseResult::Violation(viol("C13:visit-on-wrong-peer", "the visit call ran on a peer other than F".into(), &sc, &log, r.step), rep);
                        }
                        let a = q.args.first().cloned().unwrap_or(Value::Null);
                        if visited.contains(&a) {
                            return CaseResult::Violation(viol("C13:value-visited-twice", format!("the fold at F visited {} twice", a), &sc, &log, r.step), rep);
                        }
                        visited.push(a);
                    }
                }
            }
        }
        if visited.iter().any(|v| v["a"].as_str().map(|s| s.starts_with("rec:")).unwrap_or(false)) {
            rep.classes.push("recursive_append_visited".into());
            if case.prefold == 1 {
                rep.classes.push("recursive_append_visited_after_an_earlier_fold".into());
            }
        }
        if sc.script.text.contains("(ap e") {
            rep.classes.push("append_by_ap".into());
        }
        if visited.iter().any(|v| v["a"].as_str().map(|s| s.starts_with("late")).unwrap_or(false)) {
            rep.classes.push("late_append_visited".into());
        }
        // (3) local canon at F
        let mut loc_fixed = false;
        for r in &log {
            if r.peer != sc.folder || !is_new_data(r.out.ret_code) || loc_fixed {
                continue;
            }
            if let Ok(d) = decode_data(&r.out.data) {
                for (pos, _cid, peer, vals) in canons(&d.data) {
                    if peer != fid {
                        continue;
                    }
                    loc_fixed = true;
                    rep.classes.push("local_canon_checked".into());
                    let exp = stream_before(&d.data, pos);
                    if multiset(&exp) != multiset(&vals) {
                        let mut v = viol("C13:stream-differs-from-appends", format!("the stream as canonicalized at F holds {:?} but F's data held the appends {:?} before it", vals, exp), &sc, &log, r.step);
                        v.detail["trace"] = json!(crate::model::show::trace(&d.data));
                        return CaseResult::Violation(v, rep);
                    }
                    if exp != vals {
                        let mut v = viol("C13:stream-order-differs", format!("canon at F {:?} vs (generation, position) order {:?}", vals, exp), &sc, &log, r.step);
                        v.detail["trace"] = json!(crate::model::show::trace(&d.data));
                        return CaseResult::Violation(v, rep);
                    }
                }
            }
        }
        // (2a) nothing lost by merging: with the par-next shape (every iteration is reached in every
        // run) the stream values of the data delivered to F are all in the data F produces
        if case.shape == 1 {
            for r in &log {
                if r.peer != sc.folder || r.cur.is_empty() || r.out.ret_code != 0 {
                    continue;
                }
                if let (Ok(dc), Ok(dn)) = (decode_data(&r.cur), decode_data(&r.out.data)) {
                    let cur_vals = multiset(&stream_before(&dc.data, dc.data.trace.len()));
                    let new_vals = multiset(&stream_before(&dn.data, dn.data.trace.len()));
                    rep.classes.push("delivered_stream_values_kept_checked".into());
                    for (k, n) in &cur_vals {
                        if new_vals.get(k).cloned().unwrap_or(0) < *n {
                            let mut vi = viol("C13:delivered-append-lost", format!("F merged data holding {} x the stream value {} but its new data holds {}", n, k, new_vals.get(k).cloned().unwrap_or(0)), &sc, &log, r.step);
                            vi.detail["trace"] = json!(crate::model::show::trace(&dn.data));
                            vi.detail["current"] = json!(crate::model::show::trace(&dc.data));
                            return CaseResult::Violation(vi, rep);
                        }
                    }
                }
            }
        }
        // (2) completeness at quiescence, par-next shape
        if quiescent && case.shape == 1 && !visited.is_empty() {
            if let Ok(d) = decode_data(&peers[sc.folder].prev) {
                // values of $s in F's final data: all stream-valued call states
                let have = stream_before(&d.data, d.data.trace.len());
                rep.classes.push("visits_complete_checked".into());
                let (mv, mh) = (multiset(&visited), multiset(&have));
                let missing: Vec<&String> = mh.keys().filter(|k| !mv.contains_key(*k)).collect();
                let extra: Vec<&String> = mv.keys().filter(|k| !mh.contains_key(*k)).collect();
                if !missing.is_empty() || !extra.is_empty() {
                    let sig = "C13:visits-differ-from-stream";
                    let mut v = viol(sig, format!("everything was delivered; F's stream holds {} values but the fold visited {}: not visited {:?}, visited but not in the stream {:?}", have.len(), visited.len(), missing, extra), &sc, &log, log.len());
                    v.detail["trace"] = json!(crate::model::show::trace(&d.data));
                    return CaseResult::Violation(v, rep);
                }
            }
        }
        let deliveries_to_f = log.iter().filter(|r| r.peer == sc.folder && !r.cur.is_empty()).count();
        if deliveries_to_f >= 2 {
            rep.classes.push("folder_got_values_in_2_deliveries".into());
            if visited.len() >= 3 {
                rep.nontrivial.push(fnv(format!("{}|{:?}", sc.script.text, case.sched).as_bytes()));
            }
        }
        rep.sample = Some(json!({"script": sc.script.text, "visited": visited, "runs": log.len()}));
        CaseResult::Ok(rep)
    }
}

//! More monitors over honest histories: C05 C06 C07 C10 C20 C27.

use crate::core::*;
use crate::engine::*;
use crate::gen::pick;
use crate::model::data::*;
use crate::props::hist::*;
use crate::sim::*;
use air_interpreter_data::{CallResult, ExecutedState, Sender, ValueRef};
use proptest::prelude::*;
use serde_json::{json, Value};
use std::collections::{BTreeMap, BTreeSet};

fn viol(sig: &str, msg: String, h: &Hist, step: usize) -> Violation {
    Violation {
        signature: sig.to_string(),
        message: msg,
        detail: json!({"step": step, "script": h.script.text, "actions": h.log.iter().map(|r| action_json(&r.action)).collect::<Vec<_>>()}),
    }
}

fn std_bounds(tier: Tier, sched: usize) -> Value {
    json!({"skeleton_depth": tier.pick(5, 7), "skeleton_size": tier.pick(30, 60), "schedule_len": sched, "peers": "3..5", "max_steps": 300})
}

fn stream_hist(tier: Tier, sched: usize) -> BoxedStrategy<HistCase> {
    hist_strategy(1, tier.pick(5, 7), tier.pick(30, 60), sched, false)
}

/// clean + extended stream domain (for oracles independent of merge completeness)
fn stream_hist_ext(tier: Tier, sched: usize) -> BoxedStrategy<HistCase> {
    hist_strategy_dom(1, tier.pick(5, 7), tier.pick(30, 60), sched, false, true)
}

// ------------------------------------------------------------------------------ C10

pub struct C10;

impl Property for C10 {
    type Case = HistCase;
    fn freeze(&self, case: &HistCase) -> HistCase {
        crate::props::hist::freeze_hist(case)
    }
    fn id(&self) -> &'static str {
        "C10"
    }
    fn rule(&self) -> String {
        "every data produced in honest STREAM histories is checked by an independent forest scan (par sizes, nesting, fold lore partition, value pointers, generations). Non-trivial = trace with a fold nested in a par nested in a fold, or a fold over >= 2 generations, or a fold iteration with a non-empty after-range; distinct by trace hash".into()
    }
    fn bounds(&self, tier: Tier) -> Value {
        std_bounds(tier, 60)
    }
    fn cases(&self, tier: Tier) -> u32 {
        tier.pick(30_000, 400_000)
    }
    fn strategy(&self, tier: Tier) -> BoxedStrategy<HistCase> {
        stream_hist_ext(tier, 60)
    }
    fn required_classes(&self) -> Vec<&'static str> {
        vec!["has_par", "has_fold_stream", "has_new", "wf:multi_generation_fold", "wf:nonempty_after", "catchable_end", "has_recursive_stream"]
    }
    fn check(&self, case: &HistCase, _tier: Tier) -> CaseResult {
        let h = match simulate(case) {
            Ok(h) => h,
            Err(e) => return CaseResult::Discard(e),
        };
        let mut rep = CaseReport { classes: hist_classes(&h), ..Default::default() };
        for r in &h.log {
            if !is_new_data(r.out.ret_code) {
                continue;
            }
            let d = match decode_data(&r.out.data) {
                Ok(d) => d,
                Err(_) => continue,
            };
            rep.evals += 1;
            match crate::model::tracewf::check(&d.data.trace) {
                Ok(st) => {
                    if st.fold_in_par_in_fold {
                        rep.classes.push("wf:fold_in_par_in_fold".into());
                    }
                    if st.multi_generation_fold {
                        rep.classes.push("wf:multi_generation_fold".into());
                    }
                    if st.nonempty_after {
                        rep.classes.push("wf:nonempty_after".into());
                    }
                    if st.fold_in_par_in_fold || st.multi_generation_fold || st.nonempty_after {
                        rep.nontrivial.push(fnv(crate::model::show::trace(&d.data).as_bytes()));
                    }
                }
                Err(e) => {
                    let kind = e.split(':').next().unwrap_or("").split(' ').next().unwrap_or("x").to_string();
                    let mut v = viol(&format!("C10:malformed-{}", kind), e, &h, r.step);
                    v.detail["trace"] = json!(crate::model::show::trace(&d.data));
                    return CaseResult::Violation(v, rep);
                }
            }
        }
        rep.sample = Some(sample_of(&h));
        CaseResult::Ok(rep)
    }
}

// ------------------------------------------------------------------------------ C20

pub fn outcome_projection(o: &Outcome) -> Value {
    let data = match decode_data(&o.data) {
        Ok(d) => json!({"versions": format!("{:?}", (d.versions.data_version.to_string(), d.versions.interpreter_version.to_string())), "data": data_json(&d.data)}),
        Err(e) => json!({"undecodable": e, "hash": fnv(&o.data)}),
    };
    let reqs = match &o.requests {
        Ok(m) => json!(m.iter().map(|(k, r)| json!({"id": k, "service": r.service, "function": r.function, "args": r.args, "tetraplets": format!("{:?}", r.tetraplets)})).collect::<Vec<_>>()),
        Err(e) => json!({"undecodable": e}),
    };
    json!({"ret_code": o.ret_code, "error_message": o.error_message, "data": data, "requests": reqs, "next_peers": o.next_peers, "flags": format!("{:?}", o.flags)})
}

/// run description for the fresh-process re-execution
pub fn rerun_input(h: &Hist, r: &RunRecord) -> Value {
    json!({
        "script": h.particle.script, "init": h.particle.init_peer_id, "particle_id": h.particle.particle_id,
        "timestamp": h.particle.timestamp, "ttl": h.particle.ttl,
        "peer_name": h.script.peers[r.peer].name,
        "prev": hex(&r.prev), "cur": hex(&r.cur),
        "results": r.results.iter().map(|(k, v)| json!([k, v.0, v.1])).collect::<Vec<_>>(),
    })
}

pub fn rerun_from_json(v: &Value) -> Value {
    let p = Particle {
        script: v["script"].as_str().unwrap_or("").to_string(),
        init_peer_id: v["init"].as_str().unwrap_or("").to_string(),
        particle_id: v["particle_id"].as_str().unwrap_or("").to_string(),
        timestamp: v["timestamp"].as_u64().unwrap_or(0),
        ttl: v["ttl"].as_u64().unwrap_or(0) as u32,
    };
    let peer = peer_key(v["peer_name"].as_str().unwrap_or("A"));
    let mut results = BTreeMap::new();
    for e in v["results"].as_array().cloned().unwrap_or_default() {
        results.insert(e[0].as_u64().unwrap_or(0) as u32, (e[1].as_i64().unwrap_or(0) as i32, e[2].as_str().unwrap_or("").to_string()));
    }
    let o = run(&p, &peer, &unhex(v["prev"].as_str().unwrap_or("")), &unhex(v["cur"].as_str().unwrap_or("")), &results, &Limits::default());
    outcome_projection(&o)
}

fn fresh_process_rerun(input: &Value) -> Option<Value> {
    use std::io::Write;
    let exe = std::env::current_exe().ok()?;
    let mut child = std::process::Command::new(exe)
        .arg("rerun")
        .stdin(std::process::Stdio::piped())
        .stdout(std::process::Stdio::piped())
        .stderr(std::process::Stdio::null())
        .spawn()
        .ok()?;
    child.stdin.take()?.write_all(input.to_string().as_bytes()).ok()?;
    let out = child.wait_with_output().ok()?;
    serde_json::from_slice(&out.stdout).ok()
}

pub struct C20;

impl Property for C20 {
    type Case = HistCase;
    fn freeze(&self, case: &HistCase) -> HistCase {
        crate::props::hist::freeze_hist(case)
    }
    fn id(&self) -> &'static str {
        "C20"
    }
    fn rule(&self) -> String {
        "every run of STREAM/ANY histories (plus runs with several unknown call results, code 30000) re-executed in the same process, and one run per history in a fresh process; compared on ret_code, message, decoded data (canonical JSON projection), decoded requests, next-peer set. Non-trivial = outcome whose data has >= 2 entries in a hash-backed store or >= 2 signatures, or a 30000 outcome with >= 2 leftover results; distinct by input hash".into()
    }
    fn assumptions(&self) -> Vec<String> {
        vec!["a fresh process varies hash seeds and ASLR, not the platform or toolchain".into()]
    }
    fn bounds(&self, tier: Tier) -> Value {
        std_bounds(tier, 40)
    }
    fn cases(&self, tier: Tier) -> u32 {
        tier.pick(1500, 100_000)
    }
    fn strategy(&self, tier: Tier) -> BoxedStrategy<HistCase> {
        prop_oneof![stream_hist_ext(tier, 40), hist_strategy_dom(2, tier.pick(5, 7), tier.pick(30, 60), 40, false, true)].boxed()
    }
    fn required_classes(&self) -> Vec<&'static str> {
        vec!["fresh_process", "leftover_ge_2"]
    }
    fn max_shrink_iters(&self) -> u32 {
        150
    }
    fn check(&self, case: &HistCase, _tier: Tier) -> CaseResult {
        let h = match simulate(case) {
            Ok(h) => h,
            Err(e) => return CaseResult::Discard(e),
        };
        let mut rep = CaseReport { classes: hist_classes(&h), ..Default::default() };
        let n = h.log.len();
        let fresh_idx = pick(case.extra.first().cloned().unwrap_or(0), n);
        let bogus_idx = pick(case.extra.get(1).cloned().unwrap_or(0), n);
        for (i, r) in h.log.iter().enumerate() {
            let peer = &h.script.peers[r.peer];
            let mut variants: Vec<(String, BTreeMap<u32, HostResult>, Outcome)> = vec![("honest".into(), r.results.clone(), r.out.clone())];
            if i == bogus_idx {
                // several unknown ids => 30000 with >= 2 leftover results
                let mut res = r.results.clone();
                for k in 0..3u32 {
                    res.insert(900_000 + k * 7 + case.extra.get(2).cloned().unwrap_or(0) as u32, (0, format!("\"left{}\"", k)));
                }
                let o = run(&h.particle, peer, &r.prev, &r.cur, &res, &Limits::default());
                if o.ret_code == 30000 {
                    rep.classes.push("leftover_ge_2".into());
                }
                variants.push(("leftover".into(), res, o));
            }
            for (label, res, first) in variants {
                let again = run(&h.particle, peer, &r.prev, &r.cur, &res, &Limits::default());
                rep.evals += 1;
                let (a, b) = (outcome_projection(&first), outcome_projection(&again));
                if a != b {
                    let field = ["ret_code", "error_message", "data", "requests", "next_peers", "flags"].iter().find(|f| a[**f] != b[**f]).cloned().unwrap_or("?");
                    let mut v = viol(&format!("C20:same-process:{}:{}", label, field), format!("re-execution differs in {}: {} vs {}", field, a[field].to_string().chars().take(300).collect::<String>(), b[field].to_string().chars().take(300).collect::<String>()), &h, r.step);
                    v.detail["results"] = json!(format!("{:?}", res));
                    return CaseResult::Violation(v, rep);
                }
                let stores = a["data"]["data"]["cid_info"]["value_store"].as_object().map(|o| o.len()).unwrap_or(0);
                let sigs = a["data"]["data"]["signatures"].as_object().map(|o| o.len()).unwrap_or(0);
                if stores >= 2 || sigs >= 2 || (label == "leftover" && first.ret_code == 30000) {
                    rep.nontrivial.push(fnv(format!("{}{}{}{:?}", fnv(&r.prev), fnv(&r.cur), label, res).as_bytes()));
                }
                if i == fresh_idx || label == "leftover" {
                    let mut rr = r.clone();
                    rr.results = res.clone();
                    let input = rerun_input(&h, &rr);
                    if let Some(c) = fresh_process_rerun(&input) {
                        rep.evals += 1;
                        rep.classes.push("fresh_process".into());
                        if c != a {
                            let field = ["ret_code", "error_message", "data", "requests", "next_peers", "flags"].iter().find(|f| a[**f] != c[**f]).cloned().unwrap_or("?");
                            let mut v = viol(&format!("C20:fresh-process:{}:{}", label, field), format!("fresh process differs in {}: {} vs {}", field, a[field].to_string().chars().take(300).collect::<String>(), c[field].to_string().chars().take(300).collect::<String>()), &h, r.step);
                            v.detail["results"] = json!(format!("{:?}", res));
                            return CaseResult::Violation(v, rep);
                        }
                    }
                }
            }
        }
        rep.sample = Some(sample_of(&h));
        CaseResult::Ok(rep)
    }
}

// ------------------------------------------------------------------------------ C07

pub struct C07;

impl Property for C07 {
    type Case = HistCase;
    fn freeze(&self, case: &HistCase) -> HistCase {
        crate::props::hist::freeze_hist(case)
    }
    fn id(&self) -> &'static str {
        "C07"
    }
    fn rule(&self) -> String {
        "every new-data step c = f(a, b, results) of honest STREAM histories, re-run as f(c,b), f(c,a), f(c,c), f(c,empty) without call results: same decoded trace as c, no call requests, no next peers. Non-trivial = c holds a pending RequestSentBy(self:id), or a fold over a stream, or stream values; distinct by (c, variant) hash".into()
    }
    fn bounds(&self, tier: Tier) -> Value {
        std_bounds(tier, 40)
    }
    fn cases(&self, tier: Tier) -> u32 {
        tier.pick(60_000, 600_000)
    }
    fn strategy(&self, tier: Tier) -> BoxedStrategy<HistCase> {
        stream_hist(tier, 40)
    }
    fn required_classes(&self) -> Vec<&'static str> {
        vec!["has_fold_stream", "has_canon", "c_has_pending_request", "has_par"]
    }
    fn check(&self, case: &HistCase, _tier: Tier) -> CaseResult {
        let h = match simulate(case) {
            Ok(h) => h,
            Err(e) => return CaseResult::Discard(e),
        };
        let mut rep = CaseReport { classes: hist_classes(&h), ..Default::default() };
        for r in &h.log {
            if !is_new_data(r.out.ret_code) {
                continue;
            }
            let c = &r.out.data;
            let dc = match decode_data(c) {
                Ok(d) => d,
                Err(_) => continue,
            };
            let me = &h.script.peers[r.peer];
            let tc = serde_json::to_value(&dc.data.trace).unwrap();
            let pending = dc.data.trace.iter().any(|s| matches!(s, ExecutedState::Call(CallResult::RequestSentBy(Sender::PeerIdWithCallId { peer_id, .. })) if peer_id.as_str() == me.id));
            let has_fold = dc.data.trace.iter().any(|s| matches!(s, ExecutedState::Fold(_)));
            let has_stream = dc.data.trace.iter().any(|s| matches!(s, ExecutedState::Ap(_) | ExecutedState::Call(CallResult::Executed(ValueRef::Stream { .. }))));
            if pending {
                rep.classes.push("c_has_pending_request".into());
            }
            for (name, cur) in [("b", &r.cur), ("a", &r.prev), ("c", c), ("empty", &Vec::new())] {
                let o = run(&h.particle, me, c, cur, &BTreeMap::new(), &Limits::default());
                rep.evals += 1;
                if is_prev_returned(o.ret_code) {
                    return CaseResult::Violation(viol(&format!("C07:{}:fails-{}", name, o.ret_code), format!("re-delivery of {} fails with {}: {}", name, o.ret_code, o.error_message), &h, r.step), rep);
                }
                let d2 = match decode_data(&o.data) {
                    Ok(d) => d,
                    Err(e) => return CaseResult::Violation(viol(&format!("C07:{}:undecodable", name), e, &h, r.step), rep),
                };
                let t2 = serde_json::to_value(&d2.data.trace).unwrap();
                if t2 != tc {
                    let mut v = viol(&format!("C07:{}:trace-changed", name), format!("re-delivering {} changed the trace", name), &h, r.step);
                    v.detail["c"] = json!(crate::model::show::trace(&dc.data));
                    v.detail["after"] = json!(crate::model::show::trace(&d2.data));
                    return CaseResult::Violation(v, rep);
                }
                match &o.requests {
                    Ok(m) if m.is_empty() => {}
                    Ok(m) => return CaseResult::Violation(viol(&format!("C07:{}:requests", name), format!("re-delivering {} issued {} call requests", name, m.len()), &h, r.step), rep),
                    Err(e) => return CaseResult::Violation(viol(&format!("C07:{}:requests-undecodable", name), e.clone(), &h, r.step), rep),
                }
                if !o.next_peers_raw.is_empty() {
                    return CaseResult::Violation(viol(&format!("C07:{}:next-peers", name), format!("re-delivering {} sends the particle to {:?}", name, o.next_peers_raw), &h, r.step), rep);
                }
                if pending || has_fold || has_stream {
                    rep.nontrivial.push(fnv(format!("{}{}", fnv(c), name).as_bytes()));
                }
            }
        }
        rep.sample = Some(sample_of(&h));
        CaseResult::Ok(rep)
    }
}

// ------------------------------------------------------------------------------ C05 / C06

/// ids of RequestSentBy(me:id) states in a data
fn own_pending_ids(d: &air_interpreter_data::InterpreterData, me: &str) -> BTreeSet<u32> {
    d.trace
        .iter()
        .filter_map(|s| match s {
            ExecutedState::Call(CallResult::RequestSentBy(Sender::PeerIdWithCallId { peer_id, call_id })) if peer_id.as_str() == me => Some(*call_id),
            _ => None,
        })
        .collect()
}

/// multiset of value CIDs of Executed/Failed states attributed (by tetraplet) to `me`
fn own_result_values(d: &air_interpreter_data::InterpreterData, me: &str) -> BTreeMap<String, usize> {
    let mut m = BTreeMap::new();
    let ci = &d.cid_info;
    for s in d.trace.iter() {
        let cid = match s {
            ExecutedState::Call(CallResult::Executed(ValueRef::Scalar(c)))
            | ExecutedState::Call(CallResult::Executed(ValueRef::Stream { cid: c, .. }))
            | ExecutedState::Call(CallResult::Failed(c)) => c,
            _ => continue,
        };
        if let Some(sr) = ci.service_result_store.get(cid) {
            if let Some(t) = ci.tetraplet_store.get(&sr.tetraplet_cid) {
                if t.peer_pk == me {
                    // the result together with the call it is recorded at (service, function, argument hash)
                    *m.entry(format!("{}|{}|{}|{}", sr.value_cid.get_inner(), t.service_id, t.function_name, sr.argument_hash)).or_insert(0) += 1;
                }
            }
        }
    }
    m
}

fn unused_values(d: &air_interpreter_data::InterpreterData) -> BTreeMap<String, usize> {
    let mut m = BTreeMap::new();
    for s in d.trace.iter() {
        if let ExecutedState::Call(CallResult::Executed(ValueRef::Unused(c))) = s {
            *m.entry(c.get_inner().to_string()).or_insert(0) += 1;
        }
    }
    m
}

pub struct C05;

impl Property for C05 {
    type Case = HistCase;
    fn freeze(&self, case: &HistCase) -> HistCase {
        crate::props::hist::freeze_hist(case)
    }
    fn id(&self) -> &'static str {
        "C05"
    }
    fn rule(&self) -> String {
        "honest STREAM histories with particles returning to peers, duplicates and late/batched results. After every run on peer P: the ids the host still holds for P are exactly the RequestSentBy(P:id) states of P's data (a requested call is never re-requested under a new id nor forgotten), and the multiset of (value CID, service, function, argument hash) of results attributed to P in P's data equals the multiset of results the host has returned to P so far, keyed by the request they answer (each recorded exactly once, at the call that requested it, never lost). Non-trivial = a particle arrived at a peer that had >= 1 pending request, or a result was returned >= 2 runs after its request; distinct by history hash".into()
    }
    fn assumptions(&self) -> Vec<String> {
        vec!["result identity is the CID of the value text the host returned (independent CID implementation)".into(), "calls with unused output are only checked for presence (>=), they carry no tetraplet".into()]
    }
    fn bounds(&self, tier: Tier) -> Value {
        std_bounds(tier, 60)
    }
    fn cases(&self, tier: Tier) -> u32 {
        tier.pick(30_000, 300_000)
    }
    fn strategy(&self, tier: Tier) -> BoxedStrategy<HistCase> {
        stream_hist(tier, 60)
    }
    fn required_classes(&self) -> Vec<&'static str> {
        vec!["arrival_while_pending", "late_result", "redelivery", "results_with_data", "has_fold_stream"]
    }
    fn check(&self, case: &HistCase, _tier: Tier) -> CaseResult {
        let h = match simulate(case) {
            Ok(h) => h,
            Err(e) => return CaseResult::Discard(e),
        };
        let mut rep = CaseReport { classes: hist_classes(&h), ..Default::default() };
        let np = h.script.peers.len();
        let mut pending: Vec<BTreeMap<u32, usize>> = vec![BTreeMap::new(); np]; // id -> step issued
        let mut returned: Vec<BTreeMap<String, usize>> = vec![BTreeMap::new(); np];
        let mut returned_unused: Vec<BTreeMap<String, usize>> = vec![BTreeMap::new(); np];
        let mut nontrivial = false;
        for r in &h.log {
            let p = r.peer;
            let me = &h.script.peers[p].id;
            rep.evals += 1;
            if !r.cur.is_empty() && !pending[p].is_empty() {
                rep.classes.push("arrival_while_pending".into());
                nontrivial = true;
            }
            if !is_new_data(r.out.ret_code) {
                // results handed to a failing run are lost for the host: outside the honest domain
                if !r.results.is_empty() {
                    return CaseResult::Discard(format!("run with results failed with {}", r.out.ret_code));
                }
                continue;
            }
            for (id, res) in &r.results {
                if let Some(issued) = pending[p].remove(id) {
                    if r.step >= issued + 2 {
                        rep.classes.push("late_result".into());
                        nontrivial = true;
                    }
                }
                if r.out.ret_code == 30000 {
                    return CaseResult::Violation(
                        viol("C05:result-unprocessed", format!("the host returned the result of its pending request {} but the run reports unprocessed results: {}", id, r.out.error_message), &h, r.step),
                        rep,
                    );
                }
                let raw = match expected_raw(res) {
                    Some(x) => x,
                    None => continue,
                };
                let vcid = crate::model::cid::cid_of(raw.as_bytes());
                // the call that requested it: service, function and the hash of its argument values
                let key = match r.answered.get(id) {
                    Some(q) => {
                        let args = crate::jsongen::canonical(&serde_json::Value::Array(q.args.clone()));
                        format!("{}|{}|{}|{}", vcid, q.service, q.function, crate::model::cid::cid_of(args.as_bytes()))
                    }
                    None => continue,
                };
                *returned[p].entry(key).or_insert(0) += 1;
            }
            if let Ok(reqs) = &r.out.requests {
                for id in reqs.keys() {
                    if pending[p].insert(*id, r.step).is_some() {
                        return CaseResult::Violation(viol("C05:id-reissued", format!("request id {} issued twice", id), &h, r.step), rep);
                    }
                }
            }
            let d = match decode_data(&r.out.data) {
                Ok(d) => d,
                Err(_) => continue,
            };
            let in_data = own_pending_ids(&d.data, me);
            let host: BTreeSet<u32> = pending[p].keys().cloned().collect();
            if in_data != host {
                let lost: Vec<&u32> = host.difference(&in_data).collect();
                let ghost: Vec<&u32> = in_data.difference(&host).collect();
                let sig = if !lost.is_empty() { "C05:pending-request-forgotten" } else { "C05:request-marked-but-not-issued" };
                let mut v = viol(sig, format!("peer {}: host holds ids {:?}, data marks {:?} as requested by this peer (not in data: {:?}, not at host: {:?})", h.script.peers[p].name, host, in_data, lost, ghost), &h, r.step);
                v.detail["trace"] = json!(crate::model::show::trace(&d.data));
                return CaseResult::Violation(v, rep);
            }
            // results: recorded exactly once each. Results of calls without output variable are
            // stored as Unused(value cid) without tetraplet: move them from `returned` to the unused pool.
            let own = own_result_values(&d.data, me);
            let unused = unused_values(&d.data);
            for (vcid, n) in &returned[p].clone() {
                let have = own.get(vcid).cloned().unwrap_or(0);
                if have < *n {
                    // maybe (some of) them were unused-output calls
                    let value_only = vcid.split('|').next().unwrap_or("").to_string();
                    let u = unused.get(&value_only).cloned().unwrap_or(0);
                    let prev_u = returned_unused[p].get(vcid).cloned().unwrap_or(0);
                    if have + (u.saturating_sub(prev_u)).min(*n - have) + 0 >= *n || have + u >= *n {
                        let moved = *n - have;
                        *returned_unused[p].entry(vcid.clone()).or_insert(0) += moved;
                        *returned[p].get_mut(vcid).unwrap() -= moved;
                        continue;
                    }
                    let mut v = viol("C05:result-lost", format!("peer {}: the host returned value {} {} time(s) but the peer's data records it {} time(s)", h.script.peers[p].name, vcid, n, have), &h, r.step);
                    v.detail["trace"] = json!(crate::model::show::trace(&d.data));
                    return CaseResult::Violation(v, rep);
                }
            }
            for (vcid, have) in &own {
                let n = returned[p].get(vcid).cloned().unwrap_or(0);
                if *have > n {
                    let mut v = viol("C05:result-recorded-twice", format!("peer {}: value {} is recorded {} time(s) as this peer's result but the host returned it {} time(s)", h.script.peers[p].name, vcid, have, n), &h, r.step);
                    v.detail["trace"] = json!(crate::model::show::trace(&d.data));
                    return CaseResult::Violation(v, rep);
                }
            }
        }
        if nontrivial {
            rep.nontrivial.push(fnv(format!("{}|{:?}", h.script.text, case.sched).as_bytes()));
        }
        rep.sample = Some(sample_of(&h));
        CaseResult::Ok(rep)
    }
}

pub struct C06;

impl Property for C06 {
    type Case = HistCase;
    fn freeze(&self, case: &HistCase) -> HistCase {
        crate::props::hist::freeze_hist(case)
    }
    fn id(&self) -> &'static str {
        "C06"
    }
    fn rule(&self) -> String {
        "per peer run sequences of honest STREAM histories: every id handed out is larger than all ids handed out before on that peer and than the previous data's last_call_request_id, the new data's counter is >= every id issued; plus per history injected result maps with unknown, stale (already consumed) and extra ids: the run must report 30000, still apply the genuine results (C02 content rule) and return decodable data. Non-trivial = >= 2 requests pending at once answered in a different grouping than issued, or an injected unknown/stale id case; distinct by (history, injection) hash".into()
    }
    fn bounds(&self, tier: Tier) -> Value {
        std_bounds(tier, 60)
    }
    fn cases(&self, tier: Tier) -> u32 {
        tier.pick(30_000, 300_000)
    }
    fn strategy(&self, tier: Tier) -> BoxedStrategy<HistCase> {
        stream_hist(tier, 60)
    }
    fn required_classes(&self) -> Vec<&'static str> {
        vec!["regrouped_results", "inject:unknown_id", "inject:stale_id", "inject:unknown_plus_genuine"]
    }
    fn check(&self, case: &HistCase, _tier: Tier) -> CaseResult {
        let h = match simulate(case) {
            Ok(h) => h,
            Err(e) => return CaseResult::Discard(e),
        };
        let mut rep = CaseReport { classes: hist_classes(&h), ..Default::default() };
        let np = h.script.peers.len();
        let mut max_issued: Vec<u32> = vec![0; np];
        let mut consumed: Vec<BTreeMap<u32, HostResult>> = vec![BTreeMap::new(); np];
        let mut pending_n: Vec<usize> = vec![0; np];
        let mut nontrivial = false;
        for r in &h.log {
            let p = r.peer;
            rep.evals += 1;
            if !is_new_data(r.out.ret_code) {
                continue;
            }
            let prev_lcid = decode_data(&r.prev).map(|d| d.data.last_call_request_id).unwrap_or(0);
            let d = match decode_data(&r.out.data) {
                Ok(d) => d,
                Err(_) => continue,
            };
            if !r.results.is_empty() && r.results.len() < pending_n[p] {
                rep.classes.push("regrouped_results".into());
                nontrivial = true;
            }
            pending_n[p] -= r.results.len().min(pending_n[p]);
            for (id, res) in &r.results {
                consumed[p].insert(*id, res.clone());
            }
            if let Ok(reqs) = &r.out.requests {
                pending_n[p] += reqs.len();
                for id in reqs.keys() {
                    if *id <= max_issued[p] {
                        return CaseResult::Violation(viol("C06:id-not-fresh", format!("peer {} handed out id {} after already handing out {}", h.script.peers[p].name, id, max_issued[p]), &h, r.step), rep);
                    }
                    if *id <= prev_lcid {
                        return CaseResult::Violation(viol("C06:id-not-above-counter", format!("id {} is not larger than the previous data's counter {}", id, prev_lcid), &h, r.step), rep);
                    }
                }
                for id in reqs.keys() {
                    max_issued[p] = max_issued[p].max(*id);
                }
            }
            if d.data.last_call_request_id < max_issued[p] {
                return CaseResult::Violation(viol("C06:counter-behind", format!("new data's counter {} is below an issued id {}", d.data.last_call_request_id, max_issued[p]), &h, r.step), rep);
            }
        }
        // injections on a chosen run that carried genuine results (or any run)
        let with_results: Vec<&RunRecord> = h.log.iter().filter(|r| !r.answered.is_empty() && is_new_data(r.out.ret_code) && r.out.ret_code != 30000).collect();
        for (k, c) in case.extra.iter().enumerate().take(3) {
            let (r0, label) = match k {
                0 => (h.log[pick(*c, h.log.len())].clone(), "inject:unknown_id"),
                1 => {
                    if with_results.is_empty() {
                        continue;
                    }
                    (with_results[pick(*c, with_results.len())].clone(), "inject:unknown_plus_genuine")
                }
                _ => (h.log[pick(*c, h.log.len())].clone(), "inject:stale_id"),
            };
            let p = r0.peer;
            let peer = &h.script.peers[p];
            // the injected map always contains the results the honest run carried
            let mut res = r0.results.clone();
            match k {
                0 | 1 => {
                    res.insert(500_000 + *c as u32, (0, "\"bogus\"".to_string()));
                }
                _ => {
                    // a result id that this peer consumed before this run
                    let earlier: Vec<(u32, HostResult)> = h.log.iter().filter(|x| x.peer == p && x.step < r0.step).flat_map(|x| x.results.iter().map(|(a, b)| (*a, b.clone()))).collect();
                    if earlier.is_empty() {
                        continue;
                    }
                    let (id, v) = earlier[pick(*c, earlier.len())].clone();
                    if r0.results.contains_key(&id) {
                        continue;
                    }
                    res.insert(id, v);
                }
            }
            let o = run(&h.particle, peer, &r0.prev, &r0.cur, &res, &Limits::default());
            rep.evals += 1;
            if is_prev_returned(o.ret_code) && !is_prev_returned(r0.out.ret_code) {
                return CaseResult::Violation(viol(&format!("C06:{}:run-fails-{}", label, o.ret_code), format!("a result map with an id matching no pending call makes the run fail with {}: {}", o.ret_code, o.error_message), &h, r0.step), rep);
            }
            if is_new_data(r0.out.ret_code) {
                if o.ret_code != 30000 && !(10000..20000).contains(&o.ret_code) {
                    let mut v = viol(&format!("C06:{}:not-reported", label), format!("results under ids matching no pending call were not reported as unprocessed (code {})", o.ret_code), &h, r0.step);
                    v.detail["results"] = json!(format!("{:?}", res));
                    return CaseResult::Violation(v, rep);
                }
                // the genuine results are still applied and the data is as the honest run produced it
                let (d_h, d_i) = match (decode_data(&r0.out.data), decode_data(&o.data)) {
                    (Ok(a), Ok(b)) => (a, b),
                    (_, Err(e)) => return CaseResult::Violation(viol(&format!("C06:{}:undecodable", label), e, &h, r0.step), rep),
                    _ => continue,
                };
                if o.ret_code == 30000 && r0.out.ret_code == 0 {
                    let (ta, tb) = (serde_json::to_value(&d_h.data.trace).unwrap(), serde_json::to_value(&d_i.data.trace).unwrap());
                    if ta != tb {
                        let mut v = viol(&format!("C06:{}:applied-elsewhere", label), "the extra result changed the produced trace (applied to a call that did not request it, or genuine results dropped)".into(), &h, r0.step);
                        v.detail["honest"] = json!(crate::model::show::trace(&d_h.data));
                        v.detail["injected"] = json!(crate::model::show::trace(&d_i.data));
                        return CaseResult::Violation(v, rep);
                    }
                }
                rep.classes.push(label.to_string());
                rep.nontrivial.push(fnv(format!("{}{}{:?}", fnv(&r0.prev), label, res).as_bytes()));
            }
        }
        if nontrivial {
            rep.nontrivial.push(fnv(format!("{}|{:?}", h.script.text, case.sched).as_bytes()));
        }
        rep.sample = Some(sample_of(&h));
        CaseResult::Ok(rep)
    }
}

// ------------------------------------------------------------------------------ C27

pub struct C27;

impl Property for C27 {
    type Case = HistCase;
    fn freeze(&self, case: &HistCase) -> HistCase {
        crate::props::hist::freeze_hist(case)
    }
    fn id(&self) -> &'static str {
        "C27"
    }
    fn rule(&self) -> String {
        "every data, request map and result map produced in STREAM histories: decode(encode(x)) == x under the canonical JSON projection; envelope versions readable when the inner data is garbage; request/result payloads whose multicodec prefix was changed must fail to decode; avm-interface's outcome decoding agrees with the harness'. Non-trivial = data with >= 3 trace states and >= 1 request or result map entry; distinct by payload hash".into()
    }
    fn bounds(&self, tier: Tier) -> Value {
        std_bounds(tier, 30)
    }
    fn cases(&self, tier: Tier) -> u32 {
        tier.pick(8000, 150_000)
    }
    fn strategy(&self, tier: Tier) -> BoxedStrategy<HistCase> {
        stream_hist_ext(tier, 30)
    }
    fn required_classes(&self) -> Vec<&'static str> {
        vec!["prefix_mutated", "garbage_inner"]
    }
    fn check(&self, case: &HistCase, _tier: Tier) -> CaseResult {
        use air_interpreter_data::{InterpreterData, InterpreterDataEnvelope};
        use air_interpreter_interface::{CallRequestsRepr, CallResults, CallResultsRepr, CallServiceResult, SerializedCallRequests, SerializedCallResults};
        use air_interpreter_sede::{FromSerialized, ToSerialized};
        let h = match simulate(case) {
            Ok(h) => h,
            Err(e) => return CaseResult::Discard(e),
        };
        let mut rep = CaseReport { classes: hist_classes(&h), ..Default::default() };
        for r in &h.log {
            if !is_new_data(r.out.ret_code) {
                continue;
            }
            rep.evals += 1;
            // --- data round trip
            let d = match decode_data(&r.out.data) {
                Ok(d) => d,
                Err(e) => return CaseResult::Violation(viol("C27:data-undecodable", e, &h, r.step), rep),
            };
            let j1 = data_json(&d.data);
            let re = encode_data(&d.versions, &d.data);
            let d2 = match decode_data(&re) {
                Ok(d) => d,
                Err(e) => return CaseResult::Violation(viol("C27:reencoded-undecodable", e, &h, r.step), rep),
            };
            if data_json(&d2.data) != j1 || d2.versions.interpreter_version != d.versions.interpreter_version || d2.versions.data_version != d.versions.data_version {
                return CaseResult::Violation(viol("C27:data-roundtrip", "decode(encode(data)) differs from data".into(), &h, r.step), rep);
            }
            // inner rkyv round trip alone
            let inner = d.data.serialize().expect("serialize");
            match InterpreterData::try_from_slice(&inner) {
                Ok(x) if data_json(&x) == j1 => {}
                _ => return CaseResult::Violation(viol("C27:inner-roundtrip", "rkyv round trip differs".into(), &h, r.step), rep),
            }
            // versions readable with garbage inner data
            let garbage: Vec<u8> = (0..(case.extra[0] % 50)).map(|i| (i as u8).wrapping_mul(31) ^ (case.extra[1] as u8)).collect();
            let env = InterpreterDataEnvelope { versions: d.versions.clone(), inner_data: garbage.clone().into() };
            let bytes = env.serialize().expect("envelope serialize");
            match InterpreterDataEnvelope::try_get_versions(&bytes) {
                Ok(v) if v.interpreter_version == d.versions.interpreter_version && v.data_version == d.versions.data_version => {
                    rep.classes.push("garbage_inner".into());
                }
                Ok(_) => return CaseResult::Violation(viol("C27:versions-misread", "versions read from an envelope differ from the encoded ones".into(), &h, r.step), rep),
                Err(e) => return CaseResult::Violation(viol("C27:versions-unreadable", format!("versions of an envelope with undecodable inner data are not readable: {e}"), &h, r.step), rep),
            }
            // --- call requests
            if let Ok(reqs) = &r.out.requests {
                let ser: SerializedCallRequests = r.out.raw_requests.clone().into();
                let typed: air_interpreter_interface::CallRequests = match CallRequestsRepr.deserialize(&ser) {
                    Ok(t) => t,
                    Err(e) => return CaseResult::Violation(viol("C27:requests-undecodable", e.to_string(), &h, r.step), rep),
                };
                let re = CallRequestsRepr.serialize(&typed).expect("requests serialize");
                let re_bytes: Vec<u8> = re.into();
                match decode_requests(&re_bytes) {
                    Ok(m) if m == *reqs => {}
                    _ => return CaseResult::Violation(viol("C27:requests-roundtrip", "call requests do not round-trip".into(), &h, r.step), rep),
                }
                // codec prefix mutation must fail
                if !r.out.raw_requests.is_empty() {
                    let mut bad = r.out.raw_requests.clone();
                    bad[0] = bad[0].wrapping_add(1 + (case.extra[2] % 120) as u8);
                    let ser: SerializedCallRequests = bad.into();
                    let res: Result<air_interpreter_interface::CallRequests, _> = CallRequestsRepr.deserialize(&ser);
                    if res.is_ok() {
                        return CaseResult::Violation(viol("C27:requests-foreign-codec-accepted", "a call-request payload tagged with another codec was decoded".into(), &h, r.step), rep);
                    }
                    rep.classes.push("prefix_mutated".into());
                }
                // avm-interface agrees
                let raw = air_interpreter_interface::InterpreterOutcome {
                    ret_code: r.out.ret_code,
                    error_message: r.out.error_message.clone(),
                    data: r.out.data.clone(),
                    next_peer_pks: r.out.next_peers_raw.clone(),
                    call_requests: r.out.raw_requests.clone(),
                    air_size_limit_exceeded: false,
                    particle_size_limit_exceeded: false,
                    call_result_size_limit_exceeded: false,
                };
                match avm_interface::raw_outcome::RawAVMOutcome::from_interpreter_outcome(raw) {
                    Ok(o) => {
                        if o.call_requests.len() != reqs.len() {
                            return CaseResult::Violation(viol("C27:avm-interface-disagrees", "avm-interface decodes a different number of requests".into(), &h, r.step), rep);
                        }
                        for (id, q) in &o.call_requests {
                            let mine = match reqs.get(id) {
                                Some(m) => m,
                                None => return CaseResult::Violation(viol("C27:avm-interface-disagrees", format!("avm-interface has request id {} the harness does not", id), &h, r.step), rep),
                            };
                            if q.service_id != mine.service || q.function_name != mine.function || q.arguments != mine.args {
                                return CaseResult::Violation(viol("C27:avm-interface-disagrees", format!("request {} decoded differently", id), &h, r.step), rep);
                            }
                        }
                    }
                    Err(e) => return CaseResult::Violation(viol("C27:avm-interface-fails", e.to_string(), &h, r.step), rep),
                }
                if d.data.trace.len() >= 3 && (!reqs.is_empty() || !r.results.is_empty()) {
                    rep.nontrivial.push(fnv(&r.out.data));
                }
            }
            // --- call results
            if !r.results.is_empty() {
                let enc = encode_results(&r.results);
                let ser: SerializedCallResults = enc.clone().into();
                let back: CallResults = match CallResultsRepr.deserialize(&ser) {
                    Ok(b) => b,
                    Err(e) => return CaseResult::Violation(viol("C27:results-undecodable", e.to_string(), &h, r.step), rep),
                };
                let same = back.len() == r.results.len()
                    && r.results.iter().all(|(k, v)| matches!(back.get(&k.to_string()), Some(CallServiceResult { ret_code, result }) if *ret_code == v.0 && *result == v.1));
                if !same {
                    return CaseResult::Violation(viol("C27:results-roundtrip", "call results do not round-trip".into(), &h, r.step), rep);
                }
                let mut bad = enc;
                bad[0] = bad[0].wrapping_add(1 + (case.extra[3] % 120) as u8);
                let ser: SerializedCallResults = bad.into();
                let res: Result<CallResults, _> = CallResultsRepr.deserialize(&ser);
                if res.is_ok() {
                    return CaseResult::Violation(viol("C27:results-foreign-codec-accepted", "a call-result payload tagged with another codec was decoded".into(), &h, r.step), rep);
                }
                rep.classes.push("prefix_mutated".into());
            }
        }
        rep.sample = Some(sample_of(&h));
        CaseResult::Ok(rep)
    }
}

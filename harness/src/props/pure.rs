//! Pure-library properties: C25 (content ids), C26 (JSON value type).

use crate::core::fnv;
use crate::engine::*;
use crate::gen::pick;
use crate::jsongen::*;
use crate::model::cid::*;
use air_interpreter_cid::{raw_value_to_json_cid, value_to_json_cid, verify_raw_value, verify_value, CID};
use air_interpreter_value::JValue;
use proptest::prelude::*;
use serde::{Deserialize, Serialize};
use serde_json::{json, Value};

fn v(sig: &str, msg: String, detail: Value) -> Violation {
    Violation { signature: sig.to_string(), message: msg, detail }
}

// ------------------------------------------------------------------------------ C25

#[derive(Clone, Debug, Serialize, Deserialize)]
pub struct C25Case {
    pub value: Value,
    pub other: Value,
    pub choices: Vec<u16>,
    pub mutation: [u16; 4],
}

pub struct C25;

/// JValue built bottom-up through the builder API with a permuted insertion order
fn build_permuted(v: &Value, choices: &[u16], idx: &mut usize) -> JValue {
    fn take(choices: &[u16], idx: &mut usize) -> u16 {
        let c = if choices.is_empty() { 0 } else { choices[*idx % choices.len()] };
        *idx += 1;
        c
    }
    match v {
        Value::Null => JValue::Null,
        Value::Bool(b) => JValue::from(*b),
        Value::Number(n) => JValue::from(n.clone()),
        Value::String(s) => {
            if take(choices, idx) % 2 == 0 {
                JValue::string(s.as_str())
            } else {
                JValue::from(s.clone())
            }
        }
        Value::Array(a) => {
            let items: Vec<JValue> = a.iter().map(|x| build_permuted(x, choices, idx)).collect();
            if take(choices, idx) % 2 == 0 {
                JValue::array(items)
            } else {
                JValue::array_from_iter(items)
            }
        }
        Value::Object(o) => {
            let mut entries: Vec<(String, JValue)> = o.iter().map(|(k, x)| (k.clone(), build_permuted(x, choices, idx))).collect();
            // permute insertion order
            let n = entries.len();
            for i in 0..n {
                let j = i + pick(take(choices, idx), n - i);
                entries.swap(i, j);
            }
            if take(choices, idx) % 2 == 0 {
                JValue::object_from_pairs(entries.into_iter().map(|(k, x)| (k, x)))
            } else {
                let mut m = air_interpreter_value::Map::new();
                for (k, x) in entries {
                    m.insert(k.as_str().into(), x);
                }
                JValue::object(m)
            }
        }
    }
}

fn b58_text(bytes: &[u8]) -> String {
    format!("z{}", bs58::encode(bytes).into_string())
}

/// id mutations: (label, text)
fn mutated_ids(canon: &[u8], m: [u16; 4]) -> Vec<(&'static str, String)> {
    let b3 = blake3_256(canon);
    let s2 = sha2_256(canon);
    let mut out: Vec<(&'static str, String)> = vec![];
    out.push(("blake3-b32", cid_text_b32(&cid_bytes(JSON_CODEC, BLAKE3, &b3))));
    out.push(("sha2-b32", cid_text_b32(&cid_bytes(JSON_CODEC, SHA2_256, &s2))));
    out.push(("blake3-b58", b58_text(&cid_bytes(JSON_CODEC, BLAKE3, &b3))));
    out.push(("sha2-b58", b58_text(&cid_bytes(JSON_CODEC, SHA2_256, &s2))));
    // wrong codec
    let codecs = [0x55u64, 0x70, 0x71, 0x0129, 0x0201, 0x01ff, 0];
    out.push(("codec-changed", cid_text_b32(&cid_bytes(codecs[pick(m[0], codecs.len())], BLAKE3, &b3))));
    out.push(("codec-changed-sha2", cid_text_b32(&cid_bytes(codecs[pick(m[1], codecs.len())], SHA2_256, &s2))));
    // hash code changed, digest kept (right length for the claimed function where 32 bytes)
    let codes = [0x13u64, 0x16, 0x1b, 0xb220, 0x00, 0x1f, 0x11];
    out.push(("hash-code-changed", cid_text_b32(&cid_bytes(JSON_CODEC, codes[pick(m[0], codes.len())], &b3))));
    // blake3 digest under the sha2 code and vice versa
    out.push(("digest-of-other-function", cid_text_b32(&cid_bytes(JSON_CODEC, SHA2_256, &b3))));
    out.push(("digest-of-other-function", cid_text_b32(&cid_bytes(JSON_CODEC, BLAKE3, &s2))));
    // truncated digests (prefix of the right digest)
    let cut = 1 + pick(m[1], 31);
    out.push(("truncated-digest", cid_text_b32(&cid_bytes(JSON_CODEC, BLAKE3, &b3[..cut]))));
    out.push(("truncated-digest", cid_text_b32(&cid_bytes(JSON_CODEC, SHA2_256, &s2[..cut]))));
    out.push(("empty-digest", cid_text_b32(&cid_bytes(JSON_CODEC, BLAKE3, &[]))));
    // extended digest
    let mut ext = b3.clone();
    ext.extend_from_slice(&[0u8; 4][..1 + pick(m[2], 4)]);
    out.push(("extended-digest", cid_text_b32(&cid_bytes(JSON_CODEC, BLAKE3, &ext))));
    // altered digest
    let mut alt = b3.clone();
    alt[pick(m[2], 32)] ^= 1 << (m[3] % 8);
    out.push(("altered-digest", cid_text_b32(&cid_bytes(JSON_CODEC, BLAKE3, &alt))));
    let mut alt2 = s2.clone();
    alt2[pick(m[3], 32)] ^= 1 << (m[2] % 8);
    out.push(("altered-digest", b58_text(&cid_bytes(JSON_CODEC, SHA2_256, &alt2))));
    // CIDv0 of the sha2 digest
    let mut v0 = vec![0x12u8, 0x20];
    v0.extend_from_slice(&s2);
    out.push(("cidv0", bs58::encode(&v0).into_string()));
    // text-level garbage
    let good = cid_text_b32(&cid_bytes(JSON_CODEC, BLAKE3, &b3));
    out.push(("text-truncated", good[..1 + pick(m[0], good.len() - 1)].to_string()));
    out.push(("text-uppercased", good.to_uppercase()));
    out.push(("text-garbage", ["", "b", "z", "not a cid", "bafy", "Qm", "b0000", "\u{0}", "bé"][pick(m[1], 9)].to_string()));
    let mut chars: Vec<char> = good.chars().collect();
    let i = 1 + pick(m[2], chars.len() - 1);
    chars[i] = if chars[i] == 'a' { 'b' } else { 'a' };
    out.push(("text-one-char-changed", chars.into_iter().collect()));
    out
}

impl Property for C25 {
    type Case = C25Case;
    fn id(&self) -> &'static str {
        "C25"
    }
    fn rule(&self) -> String {
        "generated JSON values (depth <= 3, boundary numbers, escaped/unicode strings, duplicate-free objects) x construction route (From<&Value>, parse of a re-spelled text with permuted key order, builder API with permuted insertion order) x 24 id mutations. Oracle: ids of all routes equal and equal to an independent CIDv1/multihash/base32 implementation over canonical bytes (sorted keys, compact); verify_value / verify_raw_value succeed iff the independent model (JSON codec, sha2-256 or blake3-256, full matching digest) accepts. Non-trivial = value containing an object with >= 2 keys or a float, or a non-ASCII string; distinct by canonical text".into()
    }
    fn assumptions(&self) -> Vec<String> {
        vec!["serde_json prints number and string leaves canonically (trusted JSON reference)".into(), "SHA-256 and BLAKE3 hash crates are trusted".into(), "multibase encodings other than base32-lower and base58btc are not judged for completeness".into()]
    }
    fn bounds(&self, tier: Tier) -> Value {
        json!({"value_depth": tier.pick(3, 4), "collection_width": tier.pick(5, 8), "id_mutations_per_case": 24})
    }
    fn cases(&self, tier: Tier) -> u32 {
        tier.pick(300_000, 6_000_000)
    }
    fn strategy(&self, tier: Tier) -> BoxedStrategy<C25Case> {
        (
            value_strategy(tier.pick(3, 4), tier.pick(5, 8)),
            value_strategy(2, 3),
            proptest::collection::vec(any::<u16>(), 4..12),
            any::<[u16; 4]>(),
        )
            .prop_map(|(value, other, choices, mutation)| C25Case { value, other, choices, mutation })
            .boxed()
    }
    fn required_classes(&self) -> Vec<&'static str> {
        vec!["object_ge_2_keys", "has_float", "other_value_differs", "accept:blake3-b32", "accept:sha2-b58", "reject:truncated-digest", "reject:codec-changed"]
    }
    fn check(&self, case: &C25Case, _tier: Tier) -> CaseResult {
        let mut rep = CaseReport::default();
        let val = &case.value;
        let canon = canonical(val);
        let expect = cid_of(canon.as_bytes());
        let detail = |extra: Value| json!({"value": val, "canonical": canon, "extra": extra});
        // ---- routes
        let j1 = JValue::from(val);
        let text = noncanonical_text(val, &case.choices);
        let j2: Result<JValue, _> = serde_json::from_str(&text);
        let mut idx = 0;
        let j3 = build_permuted(val, &case.choices, &mut idx);
        let j4: Result<JValue, _> = serde_json::from_value(val.clone());
        let mut routes: Vec<(&str, JValue)> = vec![("from_ref", j1.clone()), ("builders_permuted", j3)];
        // a re-spelled text denotes the same value only if the reference parser says so
        match (&j2, serde_json::from_str::<Value>(&text)) {
            (Ok(j), Ok(rv)) if rv == *val => routes.push(("parse_respelled", j.clone())),
            (Err(e), Ok(rv)) if rv == *val => {
                return CaseResult::Violation(v("C25:respelled-text-rejected", format!("JValue parser rejects a text serde_json accepts: {}", e), detail(json!({"text": text}))), rep)
            }
            _ => {}
        }
        if let Ok(j) = j4 {
            routes.push(("from_value_deserialize", j));
        }
        for (name, j) in &routes {
            rep.evals += 1;
            let cid = match value_to_json_cid(j) {
                Ok(c) => c.get_inner().to_string(),
                Err(e) => return CaseResult::Violation(v("C25:cid-calculation-failed", format!("{}: {}", name, e), detail(json!({}))), rep),
            };
            if cid != expect {
                return CaseResult::Violation(
                    v(&format!("C25:id-differs:{}", name), format!("route {} gives id {} but the canonical bytes hash to {}", name, cid, expect), detail(json!({"text": text, "serialized": j.to_string()}))),
                    rep,
                );
            }
        }
        let raw_cid: CID<JValue> = raw_value_to_json_cid(canon.as_bytes());
        if &*raw_cid.get_inner() != expect.as_str() {
            return CaseResult::Violation(v("C25:raw-id-differs", format!("raw_value_to_json_cid gives {} expected {}", raw_cid.get_inner(), expect), detail(json!({}))), rep);
        }
        // ---- a different value must not share the id
        let other_canon = canonical(&case.other);
        if other_canon != canon {
            rep.classes.push("other_value_differs".into());
            let oc = value_to_json_cid(&JValue::from(&case.other)).map(|c| c.get_inner().to_string()).unwrap_or_default();
            if oc == expect {
                return CaseResult::Violation(v("C25:collision", "two different values got the same id".into(), detail(json!({"other": case.other}))), rep);
            }
            let cid: CID<JValue> = CID::new(oc.as_str());
            if verify_value(&cid, &j1).is_ok() || verify_raw_value(&cid, canon.as_bytes()).is_ok() {
                return CaseResult::Violation(v("C25:verify-accepts-other-values-id", "verification accepted the id of a different value".into(), detail(json!({"other": case.other}))), rep);
            }
        }
        // ---- verification against the model
        for (label, text_id) in mutated_ids(canon.as_bytes(), case.mutation) {
            let cid: CID<JValue> = CID::new(text_id.as_str());
            let model = model_verify(&text_id, canon.as_bytes());
            let got_v = std::panic::catch_unwind(std::panic::AssertUnwindSafe(|| verify_value(&cid, &j1).is_ok()));
            let got_r = std::panic::catch_unwind(std::panic::AssertUnwindSafe(|| verify_raw_value(&cid, canon.as_bytes()).is_ok()));
            rep.evals += 2;
            for (which, got) in [("verify_value", got_v), ("verify_raw_value", got_r)] {
                let got = match got {
                    Ok(g) => g,
                    Err(_) => return CaseResult::Violation(v(&format!("C25:{}-panics:{}", which, label), format!("{} panicked on id {:?}", which, text_id), detail(json!({"id": text_id}))), rep),
                };
                match (&model, got) {
                    (Verdict::Accept, false) => {
                        return CaseResult::Violation(v(&format!("C25:{}-rejects-matching:{}", which, label), format!("{} rejects the matching pair ({})", which, text_id), detail(json!({"id": text_id}))), rep)
                    }
                    (Verdict::Reject, true) => {
                        return CaseResult::Violation(v(&format!("C25:{}-accepts-nonmatching:{}", which, label), format!("{} accepts id {} ({}) for a value it does not match", which, text_id, label), detail(json!({"id": text_id}))), rep)
                    }
                    _ => {}
                }
            }
            match model {
                Verdict::Accept => rep.classes.push(format!("accept:{}", label)),
                Verdict::Reject => rep.classes.push(format!("reject:{}", label)),
                Verdict::Unknown => rep.classes.push(format!("unjudged:{}", label)),
            }
        }
        // ---- classification
        fn walk(v: &Value, obj2: &mut bool, float: &mut bool, nonascii: &mut bool) {
            match v {
                Value::Number(n) => *float |= n.is_f64(),
                Value::String(s) => *nonascii |= !s.is_ascii(),
                Value::Array(a) => a.iter().for_each(|x| walk(x, obj2, float, nonascii)),
                Value::Object(o) => {
                    *obj2 |= o.len() >= 2;
                    for (k, x) in o {
                        *nonascii |= !k.is_ascii();
                        walk(x, obj2, float, nonascii);
                    }
                }
                _ => {}
            }
        }
        let (mut o2, mut fl, mut na) = (false, false, false);
        walk(val, &mut o2, &mut fl, &mut na);
        if o2 {
            rep.classes.push("object_ge_2_keys".into());
        }
        if fl {
            rep.classes.push("has_float".into());
        }
        if na {
            rep.classes.push("non_ascii".into());
        }
        if o2 || fl || na {
            rep.nontrivial.push(fnv(canon.as_bytes()));
        }
        rep.sample = Some(json!({"value": val, "respelled": text, "id": expect}));
        CaseResult::Ok(rep)
    }
}

// ------------------------------------------------------------------------------ C26

#[derive(Clone, Debug, Serialize, Deserialize)]
pub struct C26Case {
    pub value: Value,
    pub other: Value,
    pub choices: Vec<u16>,
    /// text mutations (position, kind)
    pub text_ops: Vec<[u16; 2]>,
}

pub struct C26;

fn to_value(j: &JValue) -> Result<Value, String> {
    serde_json::to_value(j).map_err(|e| e.to_string())
}

/// structural comparison of JValue against Value through the accessor API only
fn accessor_agree(j: &JValue, r: &Value) -> Result<(), String> {
    let kinds = (j.is_null(), j.is_boolean(), j.is_number(), j.is_string(), j.is_array(), j.is_object());
    let rk = (r.is_null(), r.is_boolean(), r.is_number(), r.is_string(), r.is_array(), r.is_object());
    if kinds != rk {
        return Err(format!("kind predicates differ: {:?} vs {:?}", kinds, rk));
    }
    if j.as_bool() != r.as_bool() {
        return Err("as_bool differs".into());
    }
    if (j.is_i64(), j.is_u64(), j.is_f64()) != (r.is_i64(), r.is_u64(), r.is_f64()) {
        return Err(format!("number class differs: {:?} vs {:?}", (j.is_i64(), j.is_u64(), j.is_f64()), (r.is_i64(), r.is_u64(), r.is_f64())));
    }
    if j.as_i64() != r.as_i64() || j.as_u64() != r.as_u64() {
        return Err("as_i64/as_u64 differs".into());
    }
    match (j.as_f64(), r.as_f64()) {
        (Some(a), Some(b)) if a.to_bits() != b.to_bits() => return Err(format!("as_f64 differs: {} vs {}", a, b)),
        (Some(_), None) | (None, Some(_)) => return Err("as_f64 presence differs".into()),
        _ => {}
    }
    if j.as_str().map(|s| s.to_string()) != r.as_str().map(|s| s.to_string()) {
        return Err("as_str differs".into());
    }
    match (j.as_array(), r.as_array()) {
        (Some(a), Some(b)) => {
            if a.len() != b.len() {
                return Err("array length differs".into());
            }
            for (i, (x, y)) in a.iter().zip(b.iter()).enumerate() {
                if j.get(i).is_none() {
                    return Err(format!("get({}) is None", i));
                }
                accessor_agree(x, y)?;
            }
            if j.get(a.len()).is_some() {
                return Err("get(len) is Some".into());
            }
        }
        (None, None) => {}
        _ => return Err("as_array presence differs".into()),
    }
    match (j.as_object(), r.as_object()) {
        (Some(a), Some(b)) => {
            if a.len() != b.len() {
                return Err(format!("object size differs: {} vs {}", a.len(), b.len()));
            }
            for (k, y) in b {
                match j.get(k.as_str()) {
                    Some(x) => accessor_agree(x, y)?,
                    None => return Err(format!("key {:?} missing", k)),
                }
            }
        }
        (None, None) => {}
        _ => return Err("as_object presence differs".into()),
    }
    Ok(())
}

fn mutate_json_text(text: &str, ops: &[[u16; 2]]) -> String {
    let mut chars: Vec<char> = text.chars().collect();
    for op in ops {
        if chars.is_empty() {
            chars.push('x');
            continue;
        }
        let i = pick(op[0], chars.len());
        match op[1] % 12 {
            0 => {
                chars.remove(i);
            }
            1 => chars.insert(i, ','),
            2 => chars.insert(i, '"'),
            3 => chars[i] = '\\',
            4 => chars.insert(i, '0'),
            5 => chars.insert(i, '-'),
            6 => chars.insert(i, 'e'),
            7 => chars.insert(i, '.'),
            8 => chars.truncate(i),
            9 => chars.insert(i, '\u{0}'),
            10 => {
                let frag = ["\\ud800", "\\u12", "1e999", "-", "01", "1.", ".5", "nul", "truee", "[", "}", "\\x", "9223372036854775808", "-9223372036854775809", "18446744073709551616", "1E400", "0e0", "-0", "1e-400"];
                let f = frag[pick(op[0].wrapping_mul(31), frag.len())];
                for (k, c) in f.chars().enumerate() {
                    chars.insert(i + k, c);
                }
            }
            _ => {
                let k = pick(op[0].wrapping_mul(7), chars.len());
                chars.swap(i, k)
            }
        }
    }
    chars.into_iter().collect()
}

impl Property for C26 {
    type Case = C26Case;
    fn id(&self) -> &'static str {
        "C26"
    }
    fn rule(&self) -> String {
        "differential against serde_json::Value over generated values (boundary integers and doubles, -0.0, subnormals, u64 > i64::MAX, escaped / unicode / surrogate-pair strings, nested objects) and over canonical, re-spelled and mutated JSON texts: conversion both ways, serialisation (compact and pretty), Display, parsing (accept/reject agreement and equal result), ==, comparison with primitives, accessor API. Non-trivial = value with a boundary number (|x| >= 2^53, float, u64 > i64::MAX) or a string needing escapes, or a mutated text both parsers accept; distinct by text hash".into()
    }
    fn assumptions(&self) -> Vec<String> {
        vec!["serde_json::Value is the reference for JSON semantics".into()]
    }
    fn bounds(&self, tier: Tier) -> Value {
        json!({"value_depth": tier.pick(3, 4), "collection_width": tier.pick(5, 8), "text_mutations": "0..3"})
    }
    fn cases(&self, tier: Tier) -> u32 {
        tier.pick(400_000, 8_000_000)
    }
    fn strategy(&self, tier: Tier) -> BoxedStrategy<C26Case> {
        (
            value_strategy(tier.pick(3, 4), tier.pick(5, 8)),
            value_strategy(2, 3),
            proptest::collection::vec(any::<u16>(), 4..12),
            proptest::collection::vec(any::<[u16; 2]>(), 0..3),
        )
            .prop_map(|(value, other, choices, text_ops)| C26Case { value, other, choices, text_ops })
            .boxed()
    }
    fn required_classes(&self) -> Vec<&'static str> {
        vec!["boundary_number", "escaped_string", "mutated_text_rejected_by_both", "mutated_text_accepted_by_both", "unequal_pair", "equal_pair"]
    }
    fn check(&self, case: &C26Case, _tier: Tier) -> CaseResult {
        let mut rep = CaseReport::default();
        let val = &case.value;
        let detail = |extra: Value| json!({"value": val, "extra": extra});
        macro_rules! fail {
            ($sig:expr, $msg:expr, $extra:expr) => {
                return CaseResult::Violation(v($sig, $msg, detail($extra)), rep)
            };
        }
        // ---- conversion and serialisation
        let j = JValue::from(val);
        rep.evals += 1;
        match to_value(&j) {
            Ok(back) if back == *val => {}
            Ok(back) => fail!("C26:from-to-value-roundtrip", format!("JValue::from(&v) serialises back to {}", back), json!({})),
            Err(e) => fail!("C26:to-value-fails", e, json!({})),
        }
        let compact = match serde_json::to_string(&j) {
            Ok(s) => s,
            Err(e) => fail!("C26:serialize-fails", e.to_string(), json!({})),
        };
        if compact != canonical(val) {
            fail!("C26:serialization-differs", format!("serialises as {} but the canonical text is {}", compact, canonical(val)), json!({}));
        }
        let shown = j.to_string();
        if shown != compact {
            fail!("C26:display-differs", format!("Display gives {} but serialisation gives {}", shown, compact), json!({}));
        }
        let pretty = format!("{:#}", j);
        match serde_json::from_str::<Value>(&pretty) {
            Ok(p) if p == *val => {}
            _ => fail!("C26:pretty-display-not-reparsable", format!("pretty Display does not re-parse to the value: {}", pretty), json!({})),
        }
        match serde_json::from_str::<JValue>(&shown) {
            Ok(p) if p == j => {}
            Ok(_) => fail!("C26:display-reparse-differs", format!("Display output {} re-parses to a different JValue", shown), json!({})),
            Err(e) => fail!("C26:display-not-reparsable", format!("{}: {}", shown, e), json!({})),
        }
        if let Err(e) = accessor_agree(&j, val) {
            fail!("C26:accessors-disagree", e, json!({}));
        }
        // Deserialize from a Value deserializer
        match serde_json::from_value::<JValue>(val.clone()) {
            Ok(p) if p == j => {}
            Ok(p) => fail!("C26:from-value-deserialize-differs", format!("from_value gives {}", p), json!({})),
            Err(e) => fail!("C26:from-value-deserialize-fails", e.to_string(), json!({})),
        }
        // ---- parsing: canonical, re-spelled and mutated texts
        let respelled = noncanonical_text(val, &case.choices);
        let mutated = mutate_json_text(&respelled, &case.text_ops);
        for (label, text) in [("canonical", compact.clone()), ("respelled", respelled.clone()), ("mutated", mutated.clone())] {
            rep.evals += 1;
            let a: Result<JValue, _> = serde_json::from_str(&text);
            let b: Result<Value, _> = serde_json::from_str(&text);
            match (a, b) {
                (Ok(ja), Ok(rb)) => {
                    match to_value(&ja) {
                        Ok(back) if back == rb => {}
                        Ok(back) => fail!(&format!("C26:parse-differs:{}", label), format!("text {:?} parses to {} as JValue but to {} as Value", text, back, rb), json!({"text": text})),
                        Err(e) => fail!("C26:to-value-fails", e, json!({"text": text})),
                    }
                    if let Err(e) = accessor_agree(&ja, &rb) {
                        fail!(&format!("C26:parsed-accessors-disagree:{}", label), e, json!({"text": text}));
                    }
                    // equality with the converted value agrees with the reference
                    if (ja == j) != (rb == *val) {
                        fail!(&format!("C26:eq-disagrees-after-parse:{}", label), format!("JValue == gives {} but Value == gives {}", ja == j, rb == *val), json!({"text": text}));
                    }
                    if label == "mutated" && !case.text_ops.is_empty() {
                        rep.classes.push("mutated_text_accepted_by_both".into());
                        rep.nontrivial.push(fnv(text.as_bytes()));
                    }
                }
                (Err(_), Err(_)) => {
                    if label == "mutated" {
                        rep.classes.push("mutated_text_rejected_by_both".into());
                    } else {
                        fail!(&format!("C26:own-text-rejected:{}", label), format!("both parsers reject {:?}", text), json!({"text": text}));
                    }
                }
                (Ok(ja), Err(e)) => fail!(&format!("C26:accepts-invalid-json:{}", label), format!("JValue parser accepts {:?} (as {}) but serde_json rejects it: {}", text, ja, e), json!({"text": text})),
                (Err(e), Ok(_)) => fail!(&format!("C26:rejects-valid-json:{}", label), format!("JValue parser rejects {:?}: {}", text, e), json!({"text": text})),
            }
        }
        // ---- equality
        let jo = JValue::from(&case.other);
        rep.evals += 1;
        if (j == jo) != (*val == case.other) {
            fail!("C26:eq-disagrees", format!("JValue == gives {} but Value == gives {}", j == jo, *val == case.other), json!({"other": case.other}));
        }
        if *val == case.other {
            rep.classes.push("equal_pair".into());
        } else {
            rep.classes.push("unequal_pair".into());
        }
        // a clone and an independently built equal value are equal
        let mut idx = 0;
        let j3 = build_permuted(val, &case.choices, &mut idx);
        if j3 != j || j.clone() != j {
            fail!("C26:equal-values-unequal", "a value built in another insertion order is not equal".into(), json!({}));
        } else {
            rep.classes.push("equal_pair".into());
        }
        // ---- comparison with primitives (on leaves)
        fn leaves<'a>(v: &'a Value, out: &mut Vec<&'a Value>) {
            match v {
                Value::Array(a) => a.iter().for_each(|x| leaves(x, out)),
                Value::Object(o) => o.values().for_each(|x| leaves(x, out)),
                l => out.push(l),
            }
        }
        let mut ls = vec![];
        leaves(val, &mut ls);
        leaves(&case.other, &mut ls);
        let mut boundary = false;
        let mut escaped = false;
        for l in ls.iter().take(16) {
            let jl = JValue::from(*l);
            let probes_i: [i64; 7] = [0, 1, -1, i64::MAX, i64::MIN, l.as_i64().unwrap_or(3), 42];
            let probes_u: [u64; 5] = [0, 1, u64::MAX, l.as_u64().unwrap_or(5), i64::MAX as u64 + 1];
            let probes_f: [f64; 7] = [0.0, -0.0, 1.5, l.as_f64().unwrap_or(2.5), 1e308, 5e-324, 9007199254740993.0];
            for p in probes_i {
                if (jl == p) != (**l == p) {
                    fail!("C26:primitive-eq-i64", format!("{} == {}i64: JValue {} vs Value {}", l, p, jl == p, **l == p), json!({}));
                }
                if (p == jl) != (p == **l) {
                    fail!("C26:primitive-eq-i64-rev", format!("{}i64 == {}", p, l), json!({}));
                }
            }
            for p in probes_u {
                if (jl == p) != (**l == p) {
                    fail!("C26:primitive-eq-u64", format!("{} == {}u64: JValue {} vs Value {}", l, p, jl == p, **l == p), json!({}));
                }
            }
            for p in probes_f {
                if (jl == p) != (**l == p) {
                    fail!("C26:primitive-eq-f64", format!("{} == {}f64: JValue {} vs Value {}", l, p, jl == p, **l == p), json!({}));
                }
            }
            for p in [true, false] {
                if (jl == p) != (**l == p) {
                    fail!("C26:primitive-eq-bool", format!("{} == {}", l, p), json!({}));
                }
            }
            for p in ["", "a", l.as_str().unwrap_or("zz")] {
                if (jl == p) != (**l == p) || (jl == p.to_string()) != (**l == p.to_string()) {
                    fail!("C26:primitive-eq-str", format!("{} == {:?}", l, p), json!({}));
                }
            }
            rep.evals += 1;
            match l {
                Value::Number(n) => {
                    if n.is_f64() || n.as_u64().map(|u| u > i64::MAX as u64).unwrap_or(false) || n.as_i64().map(|i| i.unsigned_abs() >= 1 << 53).unwrap_or(false) {
                        boundary = true;
                    }
                }
                Value::String(s) => {
                    if serde_json::to_string(s).map(|t| t.len() != s.len() + 2).unwrap_or(false) {
                        escaped = true;
                    }
                }
                _ => {}
            }
        }
        if boundary {
            rep.classes.push("boundary_number".into());
        }
        if escaped {
            rep.classes.push("escaped_string".into());
        }
        if boundary || escaped {
            rep.nontrivial.push(fnv(compact.as_bytes()));
        }
        rep.sample = Some(json!({"value": val, "respelled": respelled, "mutated": mutated}));
        CaseResult::Ok(rep)
    }
}

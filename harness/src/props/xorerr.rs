//! C18: xor catches exactly the catchable failures and reports them faithfully.

use crate::core::*;
use crate::engine::*;
use crate::gen::{peers_for, pick, Script};
use crate::script::*;
use crate::sim::*;
use proptest::prelude::*;
use serde::{Deserialize, Serialize};
use serde_json::{json, Value};
use std::collections::BTreeMap;

#[derive(Clone, Debug, Serialize, Deserialize)]
pub struct C18Case {
    /// failing instruction kind and parameters
    pub fail: [u16; 4],
    /// context wrappers, outermost first
    pub ctx: Vec<[u16; 2]>,
    /// peers: (where F runs, where the catch branch runs)
    pub peers: [u16; 2],
    /// 0 = failing left branch (metamorphic), 1 = successful, 2 = waiting, 3 = uncatchable left branch
    pub mode: u8,
    pub sched: Vec<u16>,
}

pub struct C18;

fn lit_call(peer: &str, svc: &str, func: &str, args: Vec<Arg>, out: Option<&str>) -> I {
    I::Call { peer: Arg::Str(peer.into()), svc: Arg::Str(svc.into()), func: Arg::Str(func.into()), args, out: out.map(|s| s.into()) }
}

/// (prefix definitions, failing instruction, label)
fn failing_instruction(c: [u16; 4], p_fail: &str, services: &mut BTreeMap<String, Ret>) -> (Vec<I>, I, &'static str) {
    let var = |n: &str, lens: Vec<LensStep>| Arg::Var { name: n.into(), lens, length: false };
    let def_obj = |services: &mut BTreeMap<String, Ret>| {
        services.insert("mkobj".into(), Ret::Const(json!({"a": "str", "arr": [1, 2], "n": 5, "o": {"x": 1}})));
        lit_call(p_fail, "pre", "mkobj", vec![], Some("obj"))
    };
    match pick(c[0], 16) {
        0 | 1 => {
            services.insert("boom".into(), Ret::Err(1 + (c[1] % 100) as i32, format!("service failed {}", c[2] % 10)));
            (vec![], lit_call(p_fail, "s", "boom", vec![Arg::Num(c[2] as i64 % 5)], None), "service-error")
        }
        2 => (vec![], I::Fail(FailKind::Lit(1 + (c[1] % 3000) as i64, format!("literal failure {}", c[2] % 10))), "fail-literal"),
        3 => {
            services.insert("mkerr".into(), Ret::Const(json!({"error_code": 100 + c[1] % 900, "message": format!("user error {}", c[2] % 10)})));
            (vec![lit_call(p_fail, "pre", "mkerr", vec![], Some("errobj"))], I::Fail(FailKind::Arg(Arg::var("errobj"))), "fail-scalar")
        }
        4 => (vec![], I::Match(Arg::Num(1), Arg::Num(2 + (c[1] % 3) as i64), Box::new(I::Null)), "match-false"),
        5 => (vec![], I::Mismatch(Arg::Str("same".into()), Arg::Str("same".into()), Box::new(I::Null)), "mismatch-false"),
        6 => (vec![def_obj(services)], I::Ap { src: var("obj", vec![LensStep::Field("missing".into())]), dst: "y".into() }, "lens-missing-field"),
        7 => (vec![def_obj(services)], I::Ap { src: var("obj", vec![LensStep::Field("arr".into()), LensStep::Idx(2 + (c[1] % 5) as u32)]), dst: "y".into() }, "lens-index-out-of-range"),
        8 => (vec![def_obj(services)], I::Ap { src: var("obj", vec![LensStep::Field("a".into()), LensStep::Field("deeper".into())]), dst: "y".into() }, "lens-field-of-non-object"),
        9 => (vec![def_obj(services)], I::Ap { src: var("obj", vec![LensStep::Field("n".into()), LensStep::Idx(0)]), dst: "y".into() }, "lens-index-of-non-array"),
        10 => (vec![def_obj(services)], I::Fold { iterable: var("obj", vec![LensStep::Field("a".into())]), iter: "it".into(), body: Box::new(I::Null), last: None }, "fold-over-non-array"),
        11 => (vec![def_obj(services)], I::Ap { src: Arg::Var { name: "obj".into(), lens: vec![], length: true }, dst: "y".into() }, "length-of-non-array"),
        12 => (vec![def_obj(services)], lit_call(p_fail, "s", "neverrun", vec![var("obj", vec![LensStep::Field("o".into()), LensStep::Field("nope".into())])], None), "call-argument-lens-error"),
        13 => {
            services.insert("mknum".into(), Ret::Const(json!(42)));
            (vec![lit_call(p_fail, "pre", "mknum", vec![], Some("num"))], I::Call { peer: Arg::Str(p_fail.into()), svc: Arg::var("num"), func: Arg::Str("f".into()), args: vec![], out: None }, "triplet-part-not-a-string")
        }
        14 => {
            services.insert("mkkey".into(), Ret::Const(json!(true)));
            (vec![def_obj(services), lit_call(p_fail, "pre", "mkkey", vec![], Some("key"))], I::Ap { src: var("obj", vec![LensStep::ByScalar("key".into())]), dst: "y".into() }, "lens-accessor-bad-type")
        }
        _ => (vec![I::Ap { src: Arg::Str("one".into()), dst: "$cs".into() }, I::Canon { peer: Arg::Str(p_fail.into()), src: "$cs".into(), dst: "#can".into() }], I::Ap { src: var("#can", vec![LensStep::Idx(3 + (c[1] % 4) as u32)]), dst: "y".into() }, "canon-index-out-of-range"),
    }
}

/// wrap `inner` into the generated context; the same wrappers are used for both variants
/// `strip_par`: par wrappers are left out (a catchable error in one par branch does not end the run)
fn wrap(inner: I, ctx: &[[u16; 2]], p: &str, services: &mut BTreeMap<String, Ret>, strip_par: bool) -> (I, Vec<&'static str>) {
    let mut cur = inner;
    let mut labels = vec![];
    for (k, c) in ctx.iter().enumerate().rev() {
        cur = match pick(c[0], 7) {
            0 => {
                labels.push("seq-after-call");
                let f = format!("pre{}", k);
                services.insert(f.clone(), Ret::Str);
                I::seq(lit_call(p, "pre", &f, vec![], Some(&format!("pre{}", k))), cur)
            }
            1 => {
                labels.push("par-left");
                if strip_par {
                    cur
                } else {
                    I::par(cur, I::Null)
                }
            }
            2 => {
                labels.push("par-right");
                if strip_par {
                    cur
                } else {
                    I::par(I::Null, cur)
                }
            }
            3 => {
                labels.push("fold-body");
                let f = format!("arr{}", k);
                services.insert(f.clone(), Ret::Const(json!(["only"])));
                let it = format!("it{}", k);
                I::seq(
                    lit_call(p, "pre", &f, vec![], Some(&format!("arr{}", k))),
                    I::Fold { iterable: Arg::var(&format!("arr{}", k)), iter: it.clone(), body: Box::new(I::seq(cur, I::Next(it))), last: None },
                )
            }
            4 => {
                labels.push("new");
                I::New { var: format!("nv{}", k), body: Box::new(cur) }
            }
            5 => {
                labels.push("match-true");
                I::Match(Arg::Num(1), Arg::Num(1), Box::new(cur))
            }
            _ => {
                labels.push("catch-branch-of-outer-xor");
                I::xor(I::Fail(FailKind::Lit(7, "outer".into())), cur)
            }
        };
    }
    (cur, labels)
}

fn run_script(instr: &I, services: &BTreeMap<String, Ret>, sched: &[u16]) -> (Vec<RunRecord>, String) {
    let text = print(instr);
    let script = Script { instr: instr.clone(), text: text.clone(), peers: peers_for(4), services: services.clone(), feat: Default::default() };
    let mut sim = Sim::new(&script);
    sim.run_schedule(sched);
    (std::mem::take(&mut sim.log), text)
}

fn requests_of<'a>(log: &'a [RunRecord], func: &str) -> Vec<&'a Request> {
    let mut v = vec![];
    for r in log {
        if let Ok(m) = &r.out.requests {
            for q in m.values() {
                if q.function == func {
                    v.push(q);
                }
            }
        }
    }
    v
}

impl Property for C18 {
    type Case = C18Case;
    fn id(&self) -> &'static str {
        "C18"
    }
    fn rule(&self) -> String {
        "a failing instruction from a 16-entry catalog (service error, fail literal / scalar, match, mismatch, five lens errors, fold over a non-array, .length of a non-array, call-argument lens error, non-string triplet part, canon index out of range) with its defining prefix, placed in a random context of up to 3 wrappers (after a call, par left/right, scalar fold body, new, match, catch branch of an outer xor); executed twice over 4 simulated peers under a random schedule: caught `(xor F (call Q (\"obs\" \"e\") [:error:]))` and uncaught `F`. Oracle (metamorphic): the observer is called and its argument's error_code and message equal ret_code / error_message of the uncaught run. Modes 1-3: a successful, a waiting (never / variable that is never assigned) and an uncatchable (second assignment of a scalar, code 20007) left branch never triggers the marker call in the right branch. Non-trivial = the failure is raised on another peer than the one that executes the catch branch; distinct by script hash".into()
    }
    fn bounds(&self, _tier: Tier) -> Value {
        json!({"failing_instruction_kinds": 16, "context_wrappers": "0..3", "peers": 4, "schedule_len": 12})
    }
    fn cases(&self, tier: Tier) -> u32 {
        tier.pick(40_000, 600_000)
    }
    fn strategy(&self, _tier: Tier) -> BoxedStrategy<C18Case> {
        (any::<[u16; 4]>(), proptest::collection::vec(any::<[u16; 2]>(), 0..4), any::<[u16; 2]>(), prop_oneof![6 => Just(0u8), 1 => Just(1u8), 1 => Just(2u8), 1 => Just(3u8)], proptest::collection::vec(any::<u16>(), 0..12))
            .prop_map(|(fail, ctx, peers, mode, sched)| C18Case { fail, ctx, peers, mode, sched })
            .boxed()
    }
    fn required_classes(&self) -> Vec<&'static str> {
        vec!["kind:service-error", "kind:fail-literal", "kind:fail-scalar", "kind:match-false", "kind:lens-missing-field", "kind:fold-over-non-array", "kind:canon-index-out-of-range", "ctx:fold-body", "ctx:par-left", "ctx:catch-branch-of-outer-xor", "remote_failure", "mode:success", "mode:waiting", "mode:uncatchable"]
    }
    fn check(&self, case: &C18Case, _tier: Tier) -> CaseResult {
        let peers = peers_for(4);
        let p_fail = peers[pick(case.peers[0], 4)].id.clone();
        let p_catch = peers[pick(case.peers[1], 4)].id.clone();
        let mut rep = CaseReport::default();
        let mut services: BTreeMap<String, Ret> = BTreeMap::new();
        services.insert("e".into(), Ret::Str);
        services.insert("marker".into(), Ret::Str);
        if case.mode == 0 {
            let (prefix, f, kind) = failing_instruction(case.fail, &p_fail, &mut services);
            let observer = lit_call(&p_catch, "obs", "e", vec![Arg::Error(None)], None);
            let mut caught_v = prefix.clone();
            caught_v.push(I::xor(f.clone(), observer));
            let mut uncaught_v = prefix;
            uncaught_v.push(f);
            let (caught, labels) = wrap(I::seq_all(caught_v), &case.ctx, &p_fail, &mut services, false);
            let (uncaught, _) = wrap(I::seq_all(uncaught_v), &case.ctx, &p_fail, &mut services, true);
            let (log_c, text_c) = run_script(&caught, &services, &case.sched);
            let (log_u, text_u) = run_script(&uncaught, &services, &case.sched);
            rep.evals = (log_c.len() + log_u.len()) as u64;
            rep.classes.push(format!("kind:{}", kind));
            for l in &labels {
                rep.classes.push(format!("ctx:{}", l));
            }
            let detail = json!({"caught": text_c, "uncaught": text_u, "kind": kind, "context": labels});
            if log_c.iter().chain(log_u.iter()).any(|r| r.out.ret_code == 1) {
                return CaseResult::Discard(format!("parser rejects the script ({})", kind));
            }
            // the uncaught run: first run ending with an error
            let failed = log_u.iter().find(|r| r.out.ret_code != 0);
            let (u_code, u_msg, u_peer) = match failed {
                Some(r) => (r.out.ret_code, r.out.error_message.clone(), r.peer),
                None => {
                    return CaseResult::Violation(Violation { signature: format!("C18:uncaught-does-not-fail:{}", kind), message: "the failing instruction did not end the run with an error when not caught".into(), detail }, rep);
                }
            };
            if !(10000..20000).contains(&u_code) {
                return CaseResult::Discard(format!("uncaught variant ends with non-catchable code {} ({})", u_code, kind));
            }
            let obs = requests_of(&log_c, "e");
            if obs.is_empty() {
                let codes: Vec<i64> = log_c.iter().map(|r| r.out.ret_code).collect();
                return CaseResult::Violation(
                    Violation { signature: format!("C18:catch-branch-not-run:{}", kind), message: format!("the left branch fails with catchable {} but the right branch of xor was not executed (run codes {:?})", u_code, codes), detail },
                    rep,
                );
            }
            for q in &obs {
                let e = q.args.first().cloned().unwrap_or(Value::Null);
                let code = e.get("error_code").and_then(|x| x.as_i64());
                let msg = e.get("message").and_then(|x| x.as_str()).map(|s| s.to_string());
                if code != Some(u_code) {
                    return CaseResult::Violation(
                        Violation { signature: format!("C18:error-code-differs:{}", kind), message: format!(":error:.error_code is {:?} in the catch branch but the uncaught failure reports ret_code {}", code, u_code), detail: json!({"scripts": detail, "error_object": e, "uncaught_message": u_msg}) },
                        rep,
                    );
                }
                if msg.as_deref() != Some(u_msg.as_str()) {
                    return CaseResult::Violation(
                        Violation { signature: format!("C18:message-differs:{}", kind), message: format!(":error:.message is {:?} in the catch branch but the uncaught failure reports {:?}", msg, u_msg), detail: json!({"scripts": detail, "error_object": e}) },
                        rep,
                    );
                }
            }
            // was the catch branch executed on another peer than the failure?
            let catch_peer = peers.iter().position(|p| p.id == p_catch).unwrap_or(0);
            if catch_peer != u_peer {
                rep.classes.push("remote_failure".into());
                rep.nontrivial.push(fnv(text_c.as_bytes()));
            }
            rep.sample = Some(json!({"caught": text_c, "uncaught_ret_code": u_code, "uncaught_message": u_msg, "error_object": obs[0].args.first()}));
            return CaseResult::Ok(rep);
        }
        // ---- left branches that must not trigger the right branch
        let marker = lit_call(&p_catch, "obs", "marker", vec![], None);
        services.insert("ok".into(), Ret::Str);
        services.insert("a".into(), Ret::Str);
        services.insert("b".into(), Ret::Str);
        let (body, label, expect_code): (I, &str, Option<std::ops::Range<i64>>) = match case.mode {
            1 => (I::xor(lit_call(&p_fail, "s", "ok", vec![Arg::Num(case.fail[1] as i64 % 7)], Some("okv")), marker), "mode:success", None),
            2 => {
                let left = match case.fail[0] % 3 {
                    0 => I::Never,
                    1 => I::seq(lit_call(&p_fail, "s", "ok", vec![], None), I::Never),
                    _ => lit_call(&p_fail, "s", "ok", vec![Arg::var("late")], None),
                };
                let x = I::xor(left, marker);
                // `late` is textually defined in a branch that never reaches the assignment
                (I::par(I::seq(I::Never, lit_call(&p_fail, "s", "a", vec![], Some("late"))), x), "mode:waiting", None)
            }
            _ => (
                I::seq(lit_call(&p_fail, "s", "a", vec![], Some("dup")), I::xor(lit_call(&p_fail, "s", "b", vec![], Some("dup")), marker)),
                "mode:uncatchable",
                Some(20000..30000),
            ),
        };
        let (instr, labels) = wrap(body, &case.ctx, &p_fail, &mut services, false);
        let (log, text) = run_script(&instr, &services, &case.sched);
        rep.evals = log.len() as u64;
        rep.classes.push(label.to_string());
        let detail = json!({"script": text, "context": labels});
        if log.iter().any(|r| r.out.ret_code == 1) {
            return CaseResult::Discard("parser rejects the script".into());
        }
        if !requests_of(&log, "marker").is_empty() {
            return CaseResult::Violation(Violation { signature: format!("C18:right-branch-ran:{}", label), message: format!("the right branch of xor ran although the left branch is {}", &label[5..]), detail }, rep);
        }
        if let Some(range) = expect_code {
            if !log.iter().any(|r| range.contains(&r.out.ret_code)) {
                // the uncatchable error was not even raised: the script did not do what this mode intends
                return CaseResult::Discard("no uncatchable error was raised".into());
            }
        }
        rep.nontrivial.push(fnv(text.as_bytes()));
        rep.sample = Some(detail);
        CaseResult::Ok(rep)
    }
}

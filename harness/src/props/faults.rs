//! Small byte-level and call-result fault generators shared by C01/C02/C06.

use crate::core::HostResult;
use std::collections::BTreeMap;

/// deterministic byte mangling driven by one choice number
pub fn mangle(src: &[u8], c: u16) -> Vec<u8> {
    let mut v = src.to_vec();
    if v.is_empty() {
        return vec![c as u8, (c >> 8) as u8, 0x93];
    }
    let n = v.len();
    match c % 7 {
        0 => {
            // single bit flip
            let i = (c as usize * 7919) % n;
            v[i] ^= 1 << (c % 8);
        }
        1 => v.truncate((c as usize * 31) % n),
        2 => v.extend_from_slice(&[c as u8; 9]),
        3 => {
            // flip a byte near the start (envelope/versions)
            let i = (c as usize) % n.min(48);
            v[i] = v[i].wrapping_add(1 + (c % 200) as u8);
        }
        4 => {
            // zero a window
            let i = (c as usize * 131) % n;
            for b in v.iter_mut().skip(i).take(8) {
                *b = 0;
            }
        }
        5 => {
            // flip a byte near the end (rkyv root)
            let i = n - 1 - ((c as usize) % n.min(64));
            v[i] ^= 0xff;
        }
        _ => {
            v.reverse();
        }
    }
    v
}

pub fn bogus_results(c: u16) -> BTreeMap<u32, HostResult> {
    let mut m = BTreeMap::new();
    match c % 6 {
        0 => {
            m.insert(1_000_000 + c as u32, (0, "\"unknown id\"".to_string()));
        }
        1 => {
            m.insert(u32::MAX, (0, "{not json".to_string()));
        }
        2 => {
            m.insert(0, (7, "plain error text".to_string()));
            m.insert(99_999, (0, "[1,2,3]".to_string()));
        }
        3 => {
            m.insert(77_777, (i32::MIN, "".to_string()));
        }
        4 => {
            for i in 0..(c % 9) as u32 {
                m.insert(50_000 + i, (0, format!("{}", i)));
            }
            m.insert(60_000, (0, "null".into()));
        }
        _ => {
            m.insert(123_456, (i32::MAX, "\"x\"".to_string()));
        }
    }
    m
}

//! C01: the interpreter and the other public entry points never panic, abort or need memory
//! out of proportion to the input.  Cases run in isolated worker processes.

use crate::core::*;
use crate::engine::*;
use crate::gen::pick;
use crate::isolate::isolated;
use crate::props::faults::{bogus_results, mangle};
use crate::props::hist::*;
use crate::tamper::tamper;
use proptest::prelude::*;
use serde::{Deserialize, Serialize};
use serde_json::{json, Value};

#[derive(Clone, Debug, Serialize, Deserialize)]
pub struct C01Case {
    pub hist: HistCase,
    /// 0,1 = signed adversarial data; 2 = call results; 3 = script text; 4 = other entry points
    pub mode: u8,
    pub ops: Vec<[u16; 4]>,
    pub text_ops: Vec<[u16; 3]>,
}

pub const MEM_BASE: usize = 64 << 20;
pub const MEM_PER_BYTE: usize = 256;

const NON_ASCII: [&str; 8] = ["ʊ", "é", "１", "ß", "Ω", "٣", "𝟘", "\u{200b}"];
const FRAGMENTS: [&str; 22] = [
    ".$.a", ".$.[0]", ".$.[x]!", ".length", ".$", ".$.", ".$.[", "!", ".$.a.$.b", ".$.[99999999999]", "%last_error%.$.message", ":error:.$.error_code",
    "%init_peer_id%", "%timestamp%", "%ttl%", "\"", "[]", "#$c", "#%m", "$s", "%m", "-0.5",
];

/// token-level mutation of a script text
pub fn mutate_text(text: &str, ops: &[[u16; 3]]) -> String {
    let mut toks: Vec<String> = vec![];
    let mut cur = String::new();
    for ch in text.chars() {
        if ch == '(' || ch == ')' || ch == '[' || ch == ']' {
            if !cur.is_empty() {
                toks.push(std::mem::take(&mut cur));
            }
            toks.push(ch.to_string());
        } else if ch.is_whitespace() {
            if !cur.is_empty() {
                toks.push(std::mem::take(&mut cur));
            }
        } else {
            cur.push(ch);
        }
    }
    if !cur.is_empty() {
        toks.push(cur);
    }
    for op in ops {
        if toks.is_empty() {
            break;
        }
        let i = pick(op[1], toks.len());
        match pick(op[0], 14) {
            0 => {
                toks.remove(i);
            }
            1 => {
                let t = toks[i].clone();
                toks.insert(i, t);
            }
            2 => {
                let k = pick(op[2], toks.len());
                toks.swap(i, k);
            }
            3 => {
                // sigil variants
                let base = toks[i].trim_start_matches(|c| c == '$' || c == '#' || c == '%').to_string();
                let sig = ["$", "#", "%", "#%", "#$", ""][pick(op[2], 6)];
                toks[i] = format!("{}{}", sig, base);
            }
            4 => {
                let t = &mut toks[i];
                t.push_str(NON_ASCII[pick(op[2], NON_ASCII.len())]);
            }
            5 => {
                let frag = FRAGMENTS[pick(op[2], FRAGMENTS.len())];
                toks[i].push_str(frag);
            }
            6 => {
                toks[i] = FRAGMENTS[pick(op[2], FRAGMENTS.len())].to_string();
            }
            7 => {
                // non-ascii inside a lens
                toks[i] = format!("{}.$.a{}", toks[i], NON_ASCII[pick(op[2], NON_ASCII.len())]);
            }
            8 => {
                toks[i] = format!("{}", ["9223372036854775808", "-9223372036854775809", "1e400", "0.123456789012", "+.5", "00", "1.", "٣"][pick(op[2], 8)]);
            }
            9 => {
                toks.insert(i, ["(", ")", "[", "]", "\""][pick(op[2], 5)].to_string());
            }
            10 => {
                // rename to another existing token (name clashes: scalar/iterator reuse)
                let k = pick(op[2], toks.len());
                toks[i] = toks[k].clone();
            }
            11 => {
                let kw = ["call", "seq", "par", "xor", "fold", "next", "new", "ap", "canon", "match", "mismatch", "fail", "null", "never"];
                toks[i] = kw[pick(op[2], kw.len())].to_string();
            }
            12 => {
                // deep nesting
                let d = 1 + (op[2] % 200) as usize;
                let open: String = "(seq (null) ".repeat(d);
                let close: String = ")".repeat(d);
                toks.insert(i, format!("{}(null){}", open, close));
            }
            _ => {
                toks[i] = format!("{}{}", toks[i], ["x", "_", "-", ".", "..", "$", "#"][pick(op[2], 7)]);
            }
        }
    }
    let mut out = String::new();
    for t in toks {
        if !(out.ends_with('(') || out.ends_with('[') || t == ")" || t == "]" || out.is_empty()) {
            out.push(' ');
        }
        out.push_str(&t);
    }
    out
}

pub struct C01;

/// mode 5: small scripts whose recursive stream fold feeds the stream back into itself.  They
/// are run in the isolated worker only (never in process).  Variants 0..2 append the canon of
/// the whole stream (every round doubles the size of the newest value: known finding K10),
/// variants 3..5 append a bounded value per round (linear growth: must pass).
pub fn growth_script(variant: u16, rounds: u16) -> String {
    let a = crate::gen::peers_for(3)[0].id.clone();
    let n = 3 + rounds % 6;
    match variant % 6 {
        0 => format!("(seq (ap 1 $s) (fold $s i (seq (canon \"{a}\" $s #c) (seq (ap #c $s) (next i)))))"),
        1 => format!("(seq (ap \"x\" $s) (fold $s i (par (seq (canon \"{a}\" $s #c) (ap #c $s)) (next i)) (null)))"),
        2 => format!("(seq (seq (ap 1 $s) (ap 2 $s)) (fold $s i (seq (new #c (seq (canon \"{a}\" $s #c) (ap #c.$.[0] $t))) (seq (canon \"{a}\" $s #d) (seq (ap #d $s) (next i))))))"),
        3 => format!("(seq (ap 0 $s) (fold $s i (seq (xor (mismatch i {n} (ap {n} $s)) (null)) (next i))))"),
        4 => format!("(seq (ap \"x\" $s) (fold $s i (par (seq (canon \"{a}\" $s #c) (ap #c.length $t)) (next i)) (null)))"),
        _ => format!("(seq (seq (ap 1 $s) (ap 2 $s)) (fold $s i (seq (ap i $t) (next i))))"),
    }
}

fn check_growth(case: &C01Case) -> CaseResult {
    let mut rep = CaseReport::default();
    let c0 = case.ops[0];
    let script = growth_script(c0[0], c0[1]);
    let a = crate::gen::peers_for(3)[0].clone();
    let input = json!({
        "kind": "run", "script": script, "init": a.id, "particle_id": "growth", "timestamp": 1, "ttl": 1000, "peer_name": a.name,
        "prev": "", "cur": "", "results": [], "input_len": script.len(),
        // just above the judged bound: a script that passes it is stopped there
        "live_cap": MEM_BASE + MEM_PER_BYTE * script.len() + (8 << 20),
        // reaching the cap takes ~10 s of re-serializing the growing values (more on a loaded machine)
        "watchdog_s": 120,
    });
    let resp = isolated(&input);
    rep.evals += 1;
    rep.classes.push("mode:script-growth".into());
    match judge(&resp) {
        Err((sig, msg)) => {
            let v = Violation { signature: format!("C01:script-growth:{}", sig), message: msg, detail: json!({"script": script, "input": input}) };
            return CaseResult::Violation(v, rep);
        }
        Ok("timeout") => return CaseResult::Discard("watchdog timeout (inconclusive)".into()),
        Ok(_) => {}
    }
    let code = resp["out"]["ret_code"].as_i64().unwrap_or(-1);
    if code == 0 {
        rep.classes.push("bounded_recursion_script_completed".into());
        rep.nontrivial.push(fnv(script.as_bytes()));
    }
    rep.sample = Some(json!({"mode": "script-growth", "script": script, "ret_code": code, "msg": resp["out"]["msg"]}));
    CaseResult::Ok(rep)
}

fn run_case_json(h: &Hist, peer_name: &str, script: &str, prev: &[u8], cur: &[u8], results: &std::collections::BTreeMap<u32, HostResult>, results_hex: Option<String>) -> Value {
    let mut v = json!({
        "kind": "run", "script": script, "init": h.particle.init_peer_id, "particle_id": h.particle.particle_id,
        "timestamp": h.particle.timestamp, "ttl": h.particle.ttl, "peer_name": peer_name,
        "prev": hex(prev), "cur": hex(cur),
        "results": results.iter().map(|(k, v)| json!([k, v.0, v.1])).collect::<Vec<_>>(),
        "input_len": script.len() + prev.len() + cur.len() + results.values().map(|r| r.1.len() + 16).sum::<usize>(),
    });
    if let Some(hx) = results_hex {
        v["input_len"] = json!(v["input_len"].as_u64().unwrap_or(0) + (hx.len() / 2) as u64);
        v["results_hex"] = json!(hx);
    }
    v
}

/// judge a worker response; Err((signature, message)) on a C01 violation
pub fn judge(resp: &Value) -> Result<&'static str, (String, String)> {
    match resp["status"].as_str().unwrap_or("") {
        "ok" => {
            let peak = resp["peak"].as_u64().unwrap_or(0) as usize;
            let input = resp["input_len"].as_u64().unwrap_or(0) as usize;
            if peak > MEM_BASE + MEM_PER_BYTE * input {
                return Err(("mem:superlinear".into(), format!("peak live heap {} bytes for an input of {} bytes", peak, input)));
            }
            Ok("ok")
        }
        "panic" => Err((resp["sig"].as_str().unwrap_or("panic:?").to_string(), format!("panicked: {}", resp["sig"]))),
        "abort" => Err((resp["sig"].as_str().unwrap_or("abort:?").to_string(), format!("worker process died: {}", resp["stderr"]))),
        "timeout" => Ok("timeout"),
        _ => Ok("bad-response"),
    }
}

fn stage(code: i64) -> &'static str {
    match code {
        1 => "stage:script-rejected",
        2 | 3 | 4 => "stage:rejected-at-decoding",
        5 => "stage:rejected-call-results",
        6 => "stage:rejected-version",
        7 => "stage:rejected-key",
        8 => "stage:rejected-at-cid-store",
        9 => "stage:rejected-at-signature",
        10 => "stage:rejected-size",
        20000..=29999 => "stage:reached-execution-uncatchable",
        0 | 30000 => "stage:reached-farewell",
        10000..=19999 => "stage:reached-farewell-catchable",
        _ => "stage:other",
    }
}

impl Property for C01 {
    type Case = C01Case;
    fn freeze(&self, case: &C01Case) -> C01Case {
        let mut c = case.clone();
        c.hist = crate::props::hist::freeze_hist(&case.hist);
        c
    }
    fn id(&self) -> &'static str {
        "C01"
    }
    fn level(&self) -> &'static str {
        "fault_enumeration"
    }
    fn rule(&self) -> String {
        "faults from a catalog applied to honest histories and executed in isolated worker processes with a counting allocator: (0,1) data tampered by a participant and re-signed with its own key (26 operations on par/fold/generation/ap/lcid/state kinds/values/CIDs/stores/canon/signatures), delivered to a peer holding honest prev_data; (2) arbitrary and byte-mangled call-result maps; (3) token-mutated script texts executed with honest data; (4) parser, lambda parser, beautifier (indent 0..8, patterns on/off) and human-readable printer on mutated texts and tampered bytes; (5) six small scripts whose recursive stream fold feeds the stream back into itself, three doubling a value per round and three growing linearly, executed in the worker only with the live-heap cap just above the bound (1 % of the cases). Violation = panic, process death, or peak live heap > 64 MiB + 256 x input bytes. Non-trivial = tampered data that passed decoding, CID-store verification and signature check (ret_code not in 1..9), or a mutated text that reached a sub-lexer / was accepted by the parser; distinct by input hash".into()
    }
    fn assumptions(&self) -> Vec<String> {
        vec![
            "inputs are bounded (<= ~1 MiB); worker stack is 512 MiB: stack use proportional to nesting depth or fold length is documented behaviour (docs/fold.md) and not judged".into(),
            "memory is judged by live heap through the allocator wrapper, not RSS; a watchdog kill after 20 s is reported as inconclusive, never as a violation".into(),
        ]
    }
    fn bounds(&self, tier: Tier) -> Value {
        json!({"skeleton_depth": tier.pick(5, 7), "skeleton_size": tier.pick(30, 60), "ops_per_case": "1..3", "text_ops": "1..4", "mem_rule": "64MiB + 256 B per input byte", "watchdog_s": 20})
    }
    fn cases(&self, tier: Tier) -> u32 {
        tier.pick(6000, 400_000)
    }
    fn strategy(&self, tier: Tier) -> BoxedStrategy<C01Case> {
        (
            prop_oneof![
                hist_strategy_dom(1, tier.pick(5, 7), tier.pick(30, 60), 30, false, true),
                hist_strategy_dom(2, tier.pick(5, 7), tier.pick(30, 60), 30, false, true)
            ],
            prop_oneof![40 => Just(0u8), 30 => Just(1u8), 10 => Just(2u8), 20 => Just(3u8), 10 => Just(4u8), 1 => Just(5u8)],
            proptest::collection::vec(any::<[u16; 4]>(), 1..3),
            proptest::collection::vec(any::<[u16; 3]>(), 1..4),
        )
            .prop_map(|(hist, mode, ops, text_ops)| C01Case { hist, mode, ops, text_ops })
            .boxed()
    }
    fn required_classes(&self) -> Vec<&'static str> {
        vec!["stage:reached-farewell", "stage:reached-execution-uncatchable", "stage:rejected-at-signature", "stage:rejected-at-cid-store", "mode:results", "mode:text", "mode:entry-points", "mode:script-growth", "bounded_recursion_script_completed"]
    }
    fn max_shrink_iters(&self) -> u32 {
        600
    }
    fn check(&self, case: &C01Case, _tier: Tier) -> CaseResult {
        if case.mode == 5 {
            return check_growth(case);
        }
        let h = match std::panic::catch_unwind(|| simulate(&case.hist)) {
            Ok(Ok(h)) => h,
            Ok(Err(e)) => return CaseResult::Discard(e),
            Err(_) => {
                let sig = crate::isolate::last_panic();
                return CaseResult::Violation(
                    Violation { signature: format!("C01:honest:{}", sig), message: "an honest simulated run panicked".into(), detail: json!({}) },
                    CaseReport::default(),
                );
            }
        };
        let mut rep = CaseReport::default();
        let deliveries: Vec<&crate::sim::RunRecord> = h.log.iter().filter(|r| !r.cur.is_empty()).collect();
        let c0 = case.ops[0];
        let mk_viol = |sig: String, msg: String, input: &Value, labels: &Vec<String>| Violation {
            signature: format!("C01:{}", sig),
            message: msg,
            detail: json!({"script": h.script.text, "labels": labels, "input": input}),
        };
        match case.mode {
            0 | 1 => {
                // data attack: victim = receiver of a delivery (or the next run of any peer)
                let (victim, prev, honest_cur, results) = if !deliveries.is_empty() {
                    let r = deliveries[pick(c0[1], deliveries.len())];
                    (r.peer, r.prev.clone(), r.cur.clone(), if case.mode == 1 { r.results.clone() } else { Default::default() })
                } else {
                    let r = &h.log[pick(c0[1], h.log.len())];
                    ((r.peer + 1) % h.script.peers.len(), vec![], r.out.data.clone(), Default::default())
                };
                // attacker = producer of that data
                let attacker_idx = h.log.iter().find(|x| x.out.data == honest_cur).map(|x| x.peer).unwrap_or(0);
                let attacker = &h.script.peers[attacker_idx];
                let (bytes, trep) = match tamper(&honest_cur, attacker, &h.particle.particle_id, &case.ops, true) {
                    Some(x) => x,
                    None => return CaseResult::Discard("no applicable tamper operation".into()),
                };
                let input = run_case_json(&h, &h.script.peers[victim].name, &h.particle.script, &prev, &bytes, &results, None);
                let resp = isolated(&input);
                rep.evals += 1;
                for l in &trep.labels {
                    rep.classes.push(format!("op:{}", l.split('[').next().unwrap_or("").split('=').next().unwrap_or("")));
                }
                match judge(&resp) {
                    Err((sig, msg)) => return CaseResult::Violation(mk_viol(sig, msg, &input, &trep.labels), rep),
                    Ok("timeout") => return CaseResult::Discard("watchdog timeout (inconclusive)".into()),
                    Ok(_) => {}
                }
                let code = resp["out"]["ret_code"].as_i64().unwrap_or(-1);
                rep.classes.push(stage(code).to_string());
                // triage aid: VERIF_FIND=<text> turns an outcome whose message contains <text> into a
                // (shrunk, saved) case, e.g. to produce the regression file of a repaired defect
                if let Ok(pat) = std::env::var("VERIF_FIND") {
                    if resp["out"]["msg"].as_str().map(|m| m.contains(&pat)).unwrap_or(false) {
                        return CaseResult::Violation(mk_viol("found".into(), format!("message contains {}", pat), &input, &trep.labels), rep);
                    }
                }
                if trep.consistent {
                    rep.classes.push("consistent_after_repair".into());
                }
                if !(1..=9).contains(&code) {
                    rep.nontrivial.push(fnv(&bytes));
                }
                // the human-readable printer sees the same bytes
                let resp2 = isolated(&json!({"kind": "human", "bytes": hex(&bytes), "input_len": bytes.len()}));
                rep.evals += 1;
                if let Err((sig, msg)) = judge(&resp2) {
                    return CaseResult::Violation(mk_viol(format!("human:{}", sig), msg, &json!({"kind": "human", "bytes": hex(&bytes)}), &trep.labels), rep);
                }
                rep.sample = Some(json!({"mode": "data", "labels": trep.labels, "ret_code": code, "msg": resp["out"]["msg"]}));
            }
            2 => {
                rep.classes.push("mode:results".into());
                let r = &h.log[pick(c0[1], h.log.len())];
                let mut results = bogus_results(c0[2]);
                for (k, v) in &r.results {
                    results.insert(*k, v.clone());
                }
                let enc = encode_results(&results);
                let hexed = if c0[3] % 2 == 0 { Some(hex(&mangle(&enc, c0[0]))) } else { None };
                let input = run_case_json(&h, &h.script.peers[r.peer].name, &h.particle.script, &r.prev, &r.cur, &results, hexed);
                let resp = isolated(&input);
                rep.evals += 1;
                match judge(&resp) {
                    Err((sig, msg)) => return CaseResult::Violation(mk_viol(sig, msg, &input, &vec!["call-results".into()]), rep),
                    Ok("timeout") => return CaseResult::Discard("watchdog timeout (inconclusive)".into()),
                    Ok(_) => {}
                }
                let code = resp["out"]["ret_code"].as_i64().unwrap_or(-1);
                rep.classes.push(stage(code).to_string());
                if code != 5 {
                    rep.nontrivial.push(fnv(format!("{:?}{}", results, fnv(&r.prev)).as_bytes()));
                }
                rep.sample = Some(json!({"mode": "results", "results": format!("{:?}", results), "ret_code": code}));
            }
            3 => {
                rep.classes.push("mode:text".into());
                let r = &h.log[pick(c0[1], h.log.len())];
                let text = mutate_text(&h.particle.script, &case.text_ops);
                let input = run_case_json(&h, &h.script.peers[r.peer].name, &text, &r.prev, &r.cur, &r.results, None);
                let resp = isolated(&input);
                rep.evals += 1;
                match judge(&resp) {
                    Err((sig, msg)) => return CaseResult::Violation(mk_viol(sig, msg, &json!({"script": text}), &vec!["text".into()]), rep),
                    Ok("timeout") => return CaseResult::Discard("watchdog timeout (inconclusive)".into()),
                    Ok(_) => {}
                }
                let code = resp["out"]["ret_code"].as_i64().unwrap_or(-1);
                rep.classes.push(stage(code).to_string());
                if code != 1 {
                    rep.classes.push("mutated_script_accepted".into());
                    rep.nontrivial.push(fnv(text.as_bytes()));
                } else if text.contains(".$") || text.contains('"') {
                    rep.nontrivial.push(fnv(text.as_bytes()));
                }
                rep.sample = Some(json!({"mode": "text", "script": text, "ret_code": code}));
            }
            _ => {
                rep.classes.push("mode:entry-points".into());
                let text = if c0[0] % 3 == 0 { h.particle.script.clone() } else { mutate_text(&h.particle.script, &case.text_ops) };
                for (kind, extra) in [
                    ("parse", json!({})),
                    ("beautify", json!({"indent": c0[2] % 9, "patterns": c0[3] % 2 == 0})),
                    ("lambda", json!({})),
                ] {
                    let t = if kind == "lambda" {
                        // lens fragments
                        let mut s = FRAGMENTS[pick(c0[1], FRAGMENTS.len())].to_string();
                        for op in &case.text_ops {
                            match op[0] % 4 {
                                0 => s.push_str(NON_ASCII[pick(op[1], NON_ASCII.len())]),
                                1 => s.push_str(FRAGMENTS[pick(op[1], FRAGMENTS.len())]),
                                2 => s.push_str(&format!(".[{}]", op[1])),
                                _ => s.push_str(&format!(".f{}", NON_ASCII[pick(op[2], NON_ASCII.len())])),
                            }
                        }
                        s
                    } else {
                        text.clone()
                    };
                    let mut input = json!({"kind": kind, "text": t, "input_len": t.len()});
                    for (k, v) in extra.as_object().unwrap() {
                        input[k] = v.clone();
                    }
                    let resp = isolated(&input);
                    rep.evals += 1;
                    match judge(&resp) {
                        Err((sig, msg)) => return CaseResult::Violation(mk_viol(format!("{}:{}", kind, sig), msg, &input, &vec![kind.into()]), rep),
                        Ok(_) => {}
                    }
                    if resp["out"]["ok"].as_bool() == Some(true) || t.contains(".$") {
                        rep.nontrivial.push(fnv(format!("{}{}", kind, t).as_bytes()));
                    }
                }
                rep.sample = Some(json!({"mode": "entry-points", "text": text}));
            }
        }
        CaseResult::Ok(rep)
    }
}

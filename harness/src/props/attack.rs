//! C14 (forged / replayed results are never accepted) and C15 (equivocation is rejected).

use crate::core::*;
use crate::engine::*;
use crate::gen::{elaborate, pick};
use crate::model::data::*;
use crate::props::hist::*;
use crate::sim::*;
use crate::tamper::tamper;
use proptest::prelude::*;
use serde::{Deserialize, Serialize};
use serde_json::{json, Value};
use std::collections::{BTreeMap, BTreeSet};

fn viol(sig: &str, msg: String, h: &Hist, step: usize) -> Violation {
    Violation {
        signature: sig.to_string(),
        message: msg,
        detail: json!({"step": step, "script": h.script.text, "actions": h.log.iter().map(|r| action_json(&r.action)).collect::<Vec<_>>()}),
    }
}

/// per peer: multiset of (cid) attributed to it
fn multisets(d: &air_interpreter_data::InterpreterData) -> BTreeMap<String, BTreeMap<String, usize>> {
    let mut out: BTreeMap<String, BTreeMap<String, usize>> = BTreeMap::new();
    if let Ok(m) = cids_by_peer(d) {
        for (p, cids) in m {
            let e = out.entry(p).or_default();
            for c in cids {
                *e.entry(c).or_insert(0) += 1;
            }
        }
    }
    out
}

fn sub(a: &BTreeMap<String, usize>, b: &BTreeMap<String, usize>) -> bool {
    a.iter().all(|(k, n)| b.get(k).cloned().unwrap_or(0) >= *n)
}

// ------------------------------------------------------------------------------ C15

#[derive(Clone, Debug, Serialize, Deserialize)]
pub struct C15Case {
    pub hist: HistCase,
    /// (equivocating peer, call index from which its answers differ, unused)
    pub fork: [u16; 3],
    /// pair choices
    pub pairs: Vec<[u16; 3]>,
}

pub struct C15;

/// re-simulate the case with peer `x` answering differently from its `from`-th call on
fn simulate_fork(case: &HistCase, x: usize, from: usize) -> Result<Hist, String> {
    let script = match &case.explicit {
        Some(e) => crate::gen::Script { instr: e.instr.clone(), text: crate::script::print(&e.instr), peers: crate::gen::peers_for(e.n_peers), services: e.services.clone(), feat: e.feat.clone() },
        None => elaborate(&case.sk, &case.cfg()),
    };
    if air_parser::parse(&script.text).is_err() {
        return Err("parser rejects".into());
    }
    let counter = std::cell::Cell::new(0usize);
    let (particle, log, peers, inconclusive, quiescent, dropped) = {
        let mut sim = Sim::new(&script);
        let script_ref = &script;
        sim.service_override = Some(Box::new(move |pi: usize, req: &Request| {
            if pi != x {
                return None;
            }
            let k = counter.get();
            counter.set(k + 1);
            if k < from {
                return None;
            }
            let (rc, text) = host_call(script_ref, req);
            if rc != 0 {
                return Some((rc, format!("{}-fork", text)));
            }
            // wrap the honest answer so that the content id differs but the shape (mostly) survives
            let v: Value = serde_json::from_str(&text).unwrap_or(Value::Null);
            let forked = match v {
                Value::String(s) => json!(format!("{}-fork", s)),
                Value::Array(mut a) => {
                    a.push(json!("fork"));
                    Value::Array(a)
                }
                Value::Object(mut o) => {
                    o.insert("fork".into(), json!(true));
                    Value::Object(o)
                }
                Value::Number(n) => json!(n.as_i64().unwrap_or(0) + 1000),
                other => json!([other]),
            };
            Some((0, forked.to_string()))
        }));
        match &case.explicit {
            Some(e) => {
                for a in &e.actions {
                    let ok = match a {
                        Action::Kick => sim.log.is_empty(),
                        Action::Deliver(p, i) | Action::ResultsWith(p, _, i) => sim.peers.get(*p).map(|s| *i < s.inbox.len()).unwrap_or(false),
                        Action::Redeliver(p, j) => sim.peers.get(*p).map(|s| *j < s.delivered.len()).unwrap_or(false),
                        Action::Results(p, _) => *p < sim.peers.len(),
                    };
                    if !ok {
                        break;
                    }
                    sim.step(a.clone());
                }
                sim.drain();
            }
            None => sim.run_schedule(&case.sched),
        }
        let q = sim.quiescent();
        (sim.particle.clone(), std::mem::take(&mut sim.log), std::mem::take(&mut sim.peers), sim.inconclusive, q, sim.dropped_msgs)
    };
    Ok(Hist { script, particle, log, peers, inconclusive, quiescent, dropped })
}

impl Property for C15 {
    type Case = C15Case;
    fn freeze(&self, case: &C15Case) -> C15Case {
        let mut c = case.clone();
        c.hist = freeze_hist(&case.hist);
        c
    }
    fn id(&self) -> &'static str {
        "C15"
    }
    fn level(&self) -> &'static str {
        "fault_enumeration"
    }
    fn rule(&self) -> String {
        "a simulated honest history is forked: the same script and schedule are run again with one peer X answering differently from its k-th service call on (equivocation). Pairs (a, b) of data blobs, a from one branch and b from the other (and honest pairs from one branch), are merged at an observer (its own output for a as prev_data, b as current data). Oracle: for every peer the two signed result multisets are computed independently; if some peer's multisets are incomparable the run must return code 9 and the previous data byte-for-byte; if all are nested the run must not return 9 and, when it produces data, every peer's signature in it must verify over its (larger) result set. Non-trivial = pair where X's multisets both have a private element; distinct by pair hash".into()
    }
    fn assumptions(&self) -> Vec<String> {
        vec!["the attacker model is one equivocating peer whose later answers differ; cryptography is trusted".into()]
    }
    fn bounds(&self, tier: Tier) -> Value {
        json!({"skeleton_depth": tier.pick(5, 7), "skeleton_size": tier.pick(30, 60), "pairs_per_case": "1..6", "schedule_len": 40})
    }
    fn cases(&self, tier: Tier) -> u32 {
        tier.pick(8_000, 150_000)
    }
    fn strategy(&self, tier: Tier) -> BoxedStrategy<C15Case> {
        (hist_strategy(1, tier.pick(5, 7), tier.pick(30, 60), 40, false), any::<[u16; 3]>(), proptest::collection::vec(any::<[u16; 3]>(), 1..6))
            .prop_map(|(hist, fork, pairs)| C15Case { hist, fork, pairs })
            .boxed()
    }
    fn required_classes(&self) -> Vec<&'static str> {
        vec!["incomparable_rejected", "nested_accepted", "both_private", "equal_size_different_content", "honest_pair"]
    }
    fn max_shrink_iters(&self) -> u32 {
        400
    }
    fn check(&self, case: &C15Case, _tier: Tier) -> CaseResult {
        let h1 = match simulate(&case.hist) {
            Ok(h) => h,
            Err(e) => return CaseResult::Discard(e),
        };
        let mut rep = CaseReport { classes: vec![], ..Default::default() };
        // peers that answered at least one call
        let answered: Vec<usize> = (0..h1.script.peers.len()).filter(|p| h1.log.iter().any(|r| r.peer == *p && !r.results.is_empty())).collect();
        if answered.is_empty() {
            return CaseResult::Discard("no peer executed a call".into());
        }
        let x = answered[pick(case.fork[0], answered.len())];
        let n_calls: usize = h1.log.iter().filter(|r| r.peer == x).map(|r| r.results.len()).sum();
        let from = pick(case.fork[1], n_calls.max(1));
        let h2 = match simulate_fork(&case.hist, x, from) {
            Ok(h) => h,
            Err(e) => return CaseResult::Discard(e),
        };
        let xid = h1.script.peers[x].id.clone();
        let blobs = |h: &Hist| -> Vec<Vec<u8>> {
            let mut v: Vec<Vec<u8>> = vec![];
            for r in &h.log {
                if is_new_data(r.out.ret_code) && !v.contains(&r.out.data) {
                    v.push(r.out.data.clone());
                }
            }
            v
        };
        let (b1, b2) = (blobs(&h1), blobs(&h2));
        if b1.is_empty() || b2.is_empty() {
            return CaseResult::Discard("no data".into());
        }
        let obs = observer_key();
        for (k, pc) in case.pairs.iter().enumerate() {
            // honest pair (both from branch 1) every third pair, else cross-branch
            let honest = k % 3 == 2;
            let a = &b1[pick(pc[0], b1.len())];
            let b = if honest { &b1[pick(pc[1], b1.len())] } else { &b2[pick(pc[1], b2.len())] };
            let o1 = run(&h1.particle, &obs, &[], a, &BTreeMap::new(), &Limits::default());
            rep.evals += 1;
            if !is_new_data(o1.ret_code) {
                continue;
            }
            let (d1, db) = match (decode_data(&o1.data), decode_data(b)) {
                (Ok(x), Ok(y)) => (x, y),
                _ => continue,
            };
            let (m1, m2) = (multisets(&d1.data), multisets(&db.data));
            let mut incomparable: Vec<String> = vec![];
            for (p, s1) in &m1 {
                if let Some(s2) = m2.get(p) {
                    if !sub(s1, s2) && !sub(s2, s1) {
                        incomparable.push(p.clone());
                    }
                }
            }
            let o2 = run(&h1.particle, &obs, &o1.data, b, &BTreeMap::new(), &Limits::default());
            rep.evals += 1;
            let mk = |sig: &str, msg: String| {
                let mut v = viol(sig, msg, &h1, 0);
                v.detail["fork"] = json!({"peer": h1.script.peers[x].name, "from_call": from, "honest_pair": honest});
                v.detail["prev"] = json!(crate::model::show::trace(&d1.data));
                v.detail["current"] = json!(crate::model::show::trace(&db.data));
                v
            };
            if !incomparable.is_empty() {
                if o2.ret_code != 9 {
                    return CaseResult::Violation(mk("C15:equivocation-accepted", format!("peer(s) {:?} present result sets where neither contains the other, but the merge returned code {} ({})", incomparable.iter().map(|p| h1.script.peer_by_id(p).map(|k| k.name.clone()).unwrap_or_default()).collect::<Vec<_>>(), o2.ret_code, o2.error_message)), rep);
                }
                if o2.data != o1.data {
                    return CaseResult::Violation(mk("C15:prev-not-returned", "equivocation rejected but the previous data was not returned".into()), rep);
                }
                rep.classes.push("incomparable_rejected".into());
                if honest {
                    rep.classes.push("honest_pair_incomparable".into());
                }
                if let (Some(s1), Some(s2)) = (m1.get(&xid), m2.get(&xid)) {
                    if !sub(s1, s2) && !sub(s2, s1) {
                        rep.classes.push("both_private".into());
                        rep.nontrivial.push(fnv(&[a.clone(), b.clone()].concat()));
                        if s1.values().sum::<usize>() == s2.values().sum::<usize>() {
                            rep.classes.push("equal_size_different_content".into());
                        }
                    }
                }
            } else {
                if o2.ret_code == 9 {
                    return CaseResult::Violation(mk("C15:nested-rejected", format!("every peer's result sets are nested, yet the merge was rejected with code 9: {}", o2.error_message)), rep);
                }
                if is_new_data(o2.ret_code) {
                    if let Ok(d2) = decode_data(&o2.data) {
                        if let Err(e) = signature_check(&d2.data, &h1.particle.particle_id) {
                            return CaseResult::Violation(mk("C15:merged-signature-invalid", format!("the merged data does not verify: {}", e)), rep);
                        }
                        // the larger set is kept
                        let m3 = multisets(&d2.data);
                        for (p, s) in m1.iter().chain(m2.iter()) {
                            if let Some(s3) = m3.get(p) {
                                if !sub(s, s3) && sub(s3, s) && s3 != s {
                                    return CaseResult::Violation(mk("C15:smaller-set-kept", format!("peer {}: the merged data keeps a smaller result set than one of the inputs", p)), rep);
                                }
                            }
                        }
                    }
                    rep.classes.push("nested_accepted".into());
                }
                if honest {
                    rep.classes.push("honest_pair".into());
                }
            }
        }
        rep.sample = Some(json!({"script": h1.script.text, "fork_peer": h1.script.peers[x].name, "from_call": from, "blobs": [b1.len(), b2.len()]}));
        CaseResult::Ok(rep)
    }
}

// ------------------------------------------------------------------------------ C14

#[derive(Clone, Debug, Serialize, Deserialize)]
pub struct C14Case {
    pub hist: HistCase,
    /// (delivery choice, unused, unused)
    pub pick: [u16; 3],
    /// tamper operations (kind selector is mapped onto the attack kinds)
    pub ops: Vec<[u16; 4]>,
    /// 0 = tamper, 1 = replay under another particle id
    pub mode: u8,
}

pub struct C14;

/// tamper kinds (indices of tamper::apply_op) that change or move something attributed to a peer
const ATTACK_KINDS: [u16; 15] = [11, 12, 13, 14, 15, 16, 17, 18, 19, 20, 21, 22, 9, 10, 23];


const MUST_REJECT: [&str; 9] = ["value-swap", "value-non-json", "value-malformed-failure-object", "value-deep-nesting", "tetraplet-function-change", "tetraplet-lens-change", "argument-hash-change", "dangling-trace-cid", "garbage-cid-text"];

impl Property for C14 {
    type Case = C14Case;
    fn freeze(&self, case: &C14Case) -> C14Case {
        let mut c = case.clone();
        c.hist = freeze_hist(&case.hist);
        c
    }
    fn id(&self) -> &'static str {
        "C14"
    }
    fn level(&self) -> &'static str {
        "fault_enumeration"
    }
    fn rule(&self) -> String {
        "honest data d produced by peer M in a simulated history is tampered by M with 1-2 operations of a 15-kind attack catalog (value swap / non-JSON / malformed / deep value with a consistent new CID, tetraplet function / lens / peer change, argument-hash change, dangling or garbage CIDs, store entry removal, relocation of genuine results, value-kind flips, canon value changes, signature removal / swap / key-type change / garbage, state deletion / duplication / swap, sender changes); M repairs the stores and re-signs only its own result set; the data is delivered to the honest receiver V holding its honest prev_data. Also d unmodified replayed under another particle id. Oracle: (1) if V's run produces data, every (kind, CID) attributed in it to a peer other than M was produced by that peer in the honest history of this particle; (2) operations that alter a value, tetraplet, argument hash or CID of another peer's result, and the foreign particle id, must be rejected (codes 1..9999 or 20000..29999) with the previous data returned. Non-trivial = tampered data that is CID-consistent after repair and touches a result of a peer other than M; distinct by tampered-data hash".into()
    }
    fn assumptions(&self) -> Vec<String> {
        vec!["the attacker is the operation catalog and its pairs, holding only its own key; Ed25519 / BLAKE3 / SHA-2 are trusted".into()]
    }
    fn bounds(&self, tier: Tier) -> Value {
        json!({"skeleton_depth": tier.pick(5, 7), "skeleton_size": tier.pick(30, 60), "ops_per_case": "1..2", "attack_kinds": ATTACK_KINDS.len()})
    }
    fn cases(&self, tier: Tier) -> u32 {
        tier.pick(20_000, 400_000)
    }
    fn strategy(&self, tier: Tier) -> BoxedStrategy<C14Case> {
        (hist_strategy(1, tier.pick(5, 7), tier.pick(30, 60), 40, false), any::<[u16; 3]>(), prop_oneof![3 => proptest::collection::vec(any::<[u16; 4]>(), 1..2), 1 => proptest::collection::vec(any::<[u16; 4]>(), 2..3)], prop_oneof![9 => Just(0u8), 1 => Just(1u8)])
            .prop_map(|(hist, pick, ops, mode)| C14Case { hist, pick, ops, mode })
            .boxed()
    }
    fn required_classes(&self) -> Vec<&'static str> {
        vec!["rejected:9", "rejected:8", "foreign_touched_consistent", "must_reject_op", "other_particle", "accepted_after_tamper"]
    }
    fn max_shrink_iters(&self) -> u32 {
        400
    }
    fn check(&self, case: &C14Case, _tier: Tier) -> CaseResult {
        let h = match simulate(&case.hist) {
            Ok(h) => h,
            Err(e) => return CaseResult::Discard(e),
        };
        let mut rep = CaseReport::default();
        // honest knowledge per peer over the whole history
        let mut genuine: BTreeMap<String, BTreeSet<String>> = BTreeMap::new();
        for r in &h.log {
            if let Ok(d) = decode_data(&r.out.data) {
                for (p, m) in multisets(&d.data) {
                    genuine.entry(p).or_default().extend(m.into_keys());
                }
            }
        }
        let deliveries: Vec<&RunRecord> = h.log.iter().filter(|r| !r.cur.is_empty() && is_new_data(r.out.ret_code)).collect();
        if deliveries.is_empty() {
            return CaseResult::Discard("no delivery".into());
        }
        let r0 = deliveries[pick(case.pick[0], deliveries.len())];
        let victim = &h.script.peers[r0.peer];
        let attacker_idx = match h.log.iter().find(|x| x.out.data == r0.cur) {
            Some(x) => x.peer,
            None => return CaseResult::Discard("producer unknown".into()),
        };
        let attacker = &h.script.peers[attacker_idx];
        rep.evals = 1;
        if case.mode == 1 {
            // replay under another particle id
            let mut other = h.particle.clone();
            other.particle_id = format!("{}-other", h.particle.particle_id);
            let honest_cids = decode_data(&r0.cur).map(|d| multisets(&d.data)).unwrap_or_default();
            if honest_cids.is_empty() {
                return CaseResult::Discard("data without results".into());
            }
            let o = run(&other, victim, &[], &r0.cur, &BTreeMap::new(), &Limits::default());
            rep.classes.push("other_particle".into());
            if !is_prev_returned(o.ret_code) {
                return CaseResult::Violation(viol("C14:other-particle-accepted", format!("data signed for particle {} was accepted in particle {} (code {})", h.particle.particle_id, other.particle_id, o.ret_code), &h, r0.step), rep);
            }
            rep.classes.push(format!("rejected:{}", o.ret_code));
            rep.nontrivial.push(fnv(&r0.cur));
            return CaseResult::Ok(rep);
        }
        // the chosen attack kind may not apply to this data (e.g. no canon in it): try the following kinds
        let mut found = None;
        for shift in 0..ATTACK_KINDS.len() {
            let ops: Vec<[u16; 4]> = case
                .ops
                .iter()
                .map(|o| {
                    let k = ATTACK_KINDS[(pick(o[0], ATTACK_KINDS.len()) + shift) % ATTACK_KINDS.len()];
                    [(((k as u32) << 16) / 26 + 1) as u16, o[1], o[2], o[3]]
                })
                .collect();
            if let Some((bytes, trep)) = tamper(&r0.cur, attacker, &h.particle.particle_id, &ops, true) {
                if trep.labels.len() == ops.len() {
                    found = Some((ops, bytes, trep));
                    break;
                }
            }
        }
        let (ops, bytes, trep) = match found {
            Some(x) => x,
            None => return CaseResult::Discard("no applicable tamper operation".into()),
        };
        let o = run(&h.particle, victim, &r0.prev, &bytes, &BTreeMap::new(), &Limits::default());
        for l in &trep.labels {
            rep.classes.push(format!("op:{}", l.split('[').next().unwrap_or("").split('=').next().unwrap_or("").trim()));
        }
        let mk = |sig: &str, msg: String| {
            let mut v = viol(sig, msg, &h, r0.step);
            v.detail["labels"] = json!(trep.labels);
            v.detail["attacker"] = json!(attacker.name);
            v.detail["victim"] = json!(victim.name);
            v.detail["tampered_hex"] = json!(hex(&bytes));
            v
        };
        if trep.consistent && trep.touched_foreign {
            rep.classes.push("foreign_touched_consistent".into());
            rep.nontrivial.push(fnv(&bytes));
        }
        // C02 contract of the victim's run
        let mut rr = r0.clone();
        rr.cur = bytes.clone();
        rr.results.clear();
        rr.answered.clear();
        rr.out = o.clone();
        if let Err((sig, msg)) = c02_check_run(&h, &rr, true) {
            return CaseResult::Violation(mk(&format!("C14:c02:{}", sig), msg), rep);
        }
        if is_prev_returned(o.ret_code) {
            rep.classes.push(format!("rejected:{}", o.ret_code));
        } else {
            rep.classes.push("accepted_after_tamper".into());
        }
        // (2) named catalog entries on another peer's result must be rejected
        let must = trep.labels.iter().find(|l| l.contains("(foreign)") && MUST_REJECT.iter().any(|m| l.starts_with(m)));
        let must = must.or_else(|| trep.labels.iter().find(|l| l.starts_with("dangling-trace-cid") || l.starts_with("garbage-cid-text") || l.starts_with("rewrite-")));
        // (with two operations the second may undo the first: only single operations are judged here)
        let must = if trep.labels.len() == 1 && ops.len() == 1 { must } else { None };
        if let Some(l) = must {
            rep.classes.push("must_reject_op".into());
            if !is_prev_returned(o.ret_code) {
                return CaseResult::Violation(mk(&format!("C14:tampered-data-accepted:{}", l.split('[').next().unwrap_or("")), format!("data tampered with `{}` by {} was not rejected by {} (code {})", l, attacker.name, victim.name, o.ret_code)), rep);
            }
        }
        // (1) whatever was accepted: results attributed to others are genuine
        if is_new_data(o.ret_code) {
            if let Ok(d) = decode_data(&o.data) {
                // and every stored item still is what its content id says (nothing rewritten under a known id)
                if let Err(e) = closure_check(&d.data) {
                    return CaseResult::Violation(mk("C14:content-rewritten-under-known-cid", format!("after tampering ({:?}) the victim's own data is no longer content-consistent: {}", trep.labels, e)), rep);
                }
                for (p, m) in multisets(&d.data) {
                    // the attacker answers for its own results; the victim may produce results of its
                    // own in this very run (e.g. canonicalize a stream that holds the attacker's value)
                    if p == attacker.id || p == victim.id {
                        continue;
                    }
                    let g = genuine.get(&p);
                    for cid in m.keys() {
                        if !g.map(|s| s.contains(cid)).unwrap_or(false) {
                            let who = h.script.peer_by_id(&p).map(|k| k.name.clone()).unwrap_or(p.clone());
                            return CaseResult::Violation(mk("C14:forged-result-accepted", format!("after tampering ({:?}) the victim's data holds a result {} attributed to peer {} which that peer never produced for this particle", trep.labels, cid, who)), rep);
                        }
                    }
                }
            }
        }
        rep.sample = Some(json!({"labels": trep.labels, "ret_code": o.ret_code, "message": o.error_message.chars().take(120).collect::<String>(), "attacker": attacker.name, "victim": victim.name}));
        CaseResult::Ok(rep)
    }
}

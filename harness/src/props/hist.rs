//! Shared history case (script skeleton + schedule) and the monitors that only need an
//! honest simulated history: C02 C03 C04 C09 (more in sibling modules).

use crate::core::*;
use crate::engine::*;
use crate::gen::*;
use crate::model::data::*;
use crate::sim::*;
use proptest::prelude::*;
use serde::{Deserialize, Serialize};
use serde_json::{json, Value};

#[derive(Clone, Debug, Serialize, Deserialize)]
pub struct HistCase {
    pub sk: Sk,
    pub sched: Vec<u16>,
    pub n_peers: u8,
    /// 0 = Frag, 1 = Stream, 2 = Any
    pub profile: u8,
    pub non_json: bool,
    /// extra choice numbers for monitors that inject faults
    pub extra: Vec<u16>,
    /// stream folds only par-shaped (see GenCfg)
    #[serde(default)]
    pub par_only: bool,
    /// allow call-paced unbounded recursion (short step bound)
    #[serde(default)]
    pub rec: bool,
    /// frozen form written into replay files: the elaborated script and the explicit action
    /// list, so that a replay does not depend on the generator version
    #[serde(default)]
    pub explicit: Option<Explicit>,
    /// call arguments restricted to literals and iterators (GenCfg::literal_args_only)
    #[serde(default)]
    pub lit_args: bool,
}

#[derive(Clone, Debug, Serialize, Deserialize)]
pub struct Explicit {
    pub instr: crate::script::I,
    pub services: std::collections::BTreeMap<String, crate::script::Ret>,
    pub n_peers: usize,
    pub feat: Features,
    pub actions: Vec<Action>,
}

impl HistCase {
    pub fn cfg(&self) -> GenCfg {
        let profile = match self.profile {
            0 => Profile::Frag,
            1 => Profile::Stream,
            _ => Profile::Any,
        };
        GenCfg {
            profile,
            n_peers: self.n_peers.clamp(2, 6) as usize,
            max_arr: 3,
            failing: true,
            non_json: self.non_json,
            stream_fold_par_only: self.par_only,
            unbounded_rec: self.rec,
            literal_args_only: self.lit_args,
        }
    }
}

pub fn hist_strategy(profile: u8, depth: u32, size: u32, max_sched: usize, non_json: bool) -> BoxedStrategy<HistCase> {
    hist_strategy_dom(profile, depth, size, max_sched, non_json, false)
}

/// `with_extended`: half of the cases come from the extended stream domain (stream folds in
/// every shape, nested in folds, guarded recursive appends).  Only properties whose oracle
/// does not depend on merge completeness use it (C02, C10, C20, C27).
pub fn hist_strategy_dom(profile: u8, depth: u32, size: u32, max_sched: usize, non_json: bool, with_extended: bool) -> BoxedStrategy<HistCase> {
    (
        sk_strategy(depth, size),
        proptest::collection::vec(any::<u16>(), 0..max_sched),
        3u8..=5,
        proptest::collection::vec(any::<u16>(), 4..8),
        any::<bool>(),
    )
        .prop_map(move |(sk, sched, n_peers, extra, ext)| {
            // The registered checks search the "clean" stream domain: stream/map folds only in
            // the par-next shape and not nested in one another.  The classes outside it are
            // confirmed known findings (K1..K5, DESIGN §14) and are excluded by construction;
            // VERIF_EXTENDED=1 re-enables them for exploration.
            let extended = ext && (with_extended || std::env::var("VERIF_EXTENDED").is_ok());
            HistCase { sk, sched, n_peers, profile, non_json, extra, par_only: !extended, rec: false, explicit: None, lit_args: false }
        })
        .boxed()
}

pub struct Hist {
    pub script: Script,
    pub particle: Particle,
    pub log: Vec<RunRecord>,
    pub peers: Vec<PeerState>,
    pub inconclusive: bool,
    pub quiescent: bool,
    /// particles addressed to a peer id that is not a peer of the simulation (dropped)
    pub dropped: usize,
}

/// attach the frozen (generator-independent) form of a case
pub fn freeze_hist(case: &HistCase) -> HistCase {
    let mut c = case.clone();
    if c.explicit.is_some() {
        return c;
    }
    if let Ok(h) = simulate(case) {
        c.explicit = Some(Explicit {
            instr: h.script.instr.clone(),
            services: h.script.services.clone(),
            n_peers: h.script.peers.len(),
            feat: h.script.feat.clone(),
            actions: h.log.iter().map(|r| r.action.clone()).collect(),
        });
    }
    c
}

pub fn simulate(case: &HistCase) -> Result<Hist, String> {
    if let Some(e) = &case.explicit {
        let script = Script { instr: e.instr.clone(), text: crate::script::print(&e.instr), peers: peers_for(e.n_peers), services: e.services.clone(), feat: e.feat.clone() };
        if air_parser::parse(&script.text).is_err() {
            return Err("frozen script is rejected by the parser".into());
        }
        let (particle, log, peers, inconclusive, quiescent, dropped) = {
            let mut sim = Sim::new(&script);
            for a in &e.actions {
                // an action that is not enabled any more (changed behaviour) ends the replay
                let ok = match a {
                    Action::Kick => sim.log.is_empty(),
                    Action::Deliver(p, i) | Action::ResultsWith(p, _, i) => sim.peers.get(*p).map(|x| *i < x.inbox.len()).unwrap_or(false),
                    Action::Redeliver(p, j) => sim.peers.get(*p).map(|x| *j < x.delivered.len()).unwrap_or(false),
                    Action::Results(p, _) => *p < sim.peers.len(),
                };
                if !ok {
                    break;
                }
                sim.step(a.clone());
            }
            sim.drain();
            let q = sim.quiescent();
            (sim.particle.clone(), std::mem::take(&mut sim.log), std::mem::take(&mut sim.peers), sim.inconclusive, q, sim.dropped_msgs)
        };
        return Ok(Hist { script, particle, log, peers, inconclusive, quiescent, dropped });
    }
    let script = elaborate(&case.sk, &case.cfg());
    if air_parser::parse(&script.text).is_err() {
        return Err("generator produced a script the parser rejects".into());
    }
    let (particle, log, peers, inconclusive, quiescent, dropped) = {
        let mut sim = Sim::new(&script);
        if script.feat.unbounded_rec > 0 {
            sim.max_steps = 40;
        }
        sim.run_schedule(&case.sched);
        let q = sim.quiescent();
        (sim.particle.clone(), std::mem::take(&mut sim.log), std::mem::take(&mut sim.peers), sim.inconclusive, q, sim.dropped_msgs)
    };
    Ok(Hist { script, particle, log, peers, inconclusive, quiescent, dropped })
}

pub fn sample_of(h: &Hist) -> Value {
    json!({
        "script": h.script.text,
        "runs": h.log.iter().map(|r| json!({
            "action": action_json(&r.action), "peer": h.script.peers[r.peer].name, "ret_code": r.out.ret_code,
            "next_peers": r.out.next_peers.len(), "requests": r.out.requests.as_ref().map(|m| m.len()).unwrap_or(0),
            "results": r.results.len(), "cur_len": r.cur.len(),
        })).collect::<Vec<_>>(),
    })
}

pub fn hist_classes(h: &Hist) -> Vec<String> {
    let f = &h.script.feat;
    let mut c = vec![];
    let mut add = |b: bool, s: &str| {
        if b {
            c.push(s.to_string())
        }
    };
    add(f.pars > 0, "has_par");
    add(f.xors > 0, "has_xor");
    add(f.fold_scalar > 0, "has_fold_scalar");
    add(f.fold_stream > 0, "has_fold_stream");
    add(f.fold_map > 0, "has_fold_map");
    add(f.fold_canon > 0, "has_fold_canon");
    add(f.canons > 0, "has_canon");
    add(f.news > 0, "has_new");
    add(f.recursive > 0, "has_recursive_stream");
    add(f.seq_stream_fold > 0, "has_seq_stream_fold");
    add(f.fold_stream + f.fold_map > 0 && f.seq_stream_fold == 0, "stream_folds_par_only");
    add(f.var_targets > 0, "has_variable_target");
    add(f.failing_services > 0, "has_failing_service");
    add(h.log.iter().any(|r| matches!(r.action, Action::Redeliver(..))), "redelivery");
    add(h.log.iter().any(|r| matches!(r.action, Action::ResultsWith(..))), "results_with_data");
    add(h.log.iter().any(|r| (10000..20000).contains(&r.out.ret_code)), "catchable_end");
    add(h.log.iter().any(|r| r.out.ret_code == 30000), "code_30000");
    let peers_run: std::collections::BTreeSet<usize> = h.log.iter().map(|r| r.peer).collect();
    add(peers_run.len() >= 3, "three_peers_ran");
    add(h.log.len() >= 8, "runs_ge_8");
    add(h.inconclusive, "step_bound_hit");
    c
}

/// expected raw text the interpreter stores for a host result
pub fn expected_raw(r: &HostResult) -> Option<String> {
    if r.0 == 0 {
        // successful result: the JSON text re-serialised
        serde_json::from_str::<Value>(&r.1).ok().map(|v| v.to_string())
    } else {
        Some(json!({"message": r.1, "ret_code": r.0}).to_string())
    }
}

fn viol(sig: &str, msg: String, h: &Hist, step: usize) -> Violation {
    Violation {
        signature: sig.to_string(),
        message: msg,
        detail: json!({"step": step, "script": h.script.text, "actions": h.log.iter().map(|r| action_json(&r.action)).collect::<Vec<_>>()}),
    }
}

// ------------------------------------------------------------------------------ C02

pub fn c02_check_run(h: &Hist, r: &RunRecord, prev_is_interp_output: bool) -> Result<(), (String, String)> {
    let code = r.out.ret_code;
    let me = &h.script.peers[r.peer].id;
    if is_prev_returned(code) {
        if !prev_is_interp_output {
            return Ok(());
        }
        if r.out.data != r.prev {
            return Err(("prev-not-returned".into(), format!("code {} but data != prev_data ({} vs {} bytes)", code, r.out.data.len(), r.prev.len())));
        }
        if !r.out.next_peers_raw.is_empty() {
            return Err(("next-peers-on-failure".into(), format!("code {} with next peers {:?}", code, r.out.next_peers_raw)));
        }
        match &r.out.requests {
            Ok(m) if m.is_empty() => {}
            Ok(m) => return Err(("requests-on-failure".into(), format!("code {} with {} call requests", code, m.len()))),
            Err(e) => return Err(("requests-undecodable".into(), format!("code {}: {}", code, e))),
        }
        Ok(())
    } else if is_new_data(code) {
        if r.out.data.is_empty() {
            return Err(("empty-new-data".into(), format!("code {} returned empty data", code)));
        }
        let d = decode_data(&r.out.data).map_err(|e| ("undecodable-new-data".to_string(), format!("code {}: {}", code, e)))?;
        let reqs = r.out.requests.as_ref().map_err(|e| ("requests-undecodable".to_string(), e.clone()))?;
        // every request issued in this run is recorded as sent by me with that id
        for id in reqs.keys() {
            let found = d.data.trace.iter().any(|st| match st {
                air_interpreter_data::ExecutedState::Call(air_interpreter_data::CallResult::RequestSentBy(
                    air_interpreter_data::Sender::PeerIdWithCallId { peer_id, call_id },
                )) => peer_id.as_str() == me && call_id == id,
                _ => false,
            });
            if !found {
                return Err(("request-not-recorded".into(), format!("request id {} issued but no RequestSentBy({}:{}) in new data", id, me, id)));
            }
        }
        // every supplied result that was consumed is recorded with its content.  Only for code 0:
        // a run that ends with a catchable error may stop before it reaches the call a result
        // belongs to (that is C05/C06's subject, not "everything executed in that run")
        if code == 0 {
            let k = knowledge(&d.data);
            for (id, res) in &r.results {
                if !r.answered.contains_key(id) {
                    continue;
                }
                let raw = match expected_raw(res) {
                    Some(x) => x,
                    None => continue, // non-JSON result: stored as a failed call with an interpreter-made message
                };
                let vcid = crate::model::cid::cid_of(raw.as_bytes());
                let in_store = d.data.cid_info.value_store.iter().any(|(c, _)| *c.get_inner() == vcid);
                let as_unused = k.contains_key(&("unused".to_string(), vcid.clone()));
                if !in_store && !as_unused {
                    return Err(("result-not-recorded".into(), format!("result of request {} ({}) not present in new data (code {})", id, raw, code)));
                }
            }
        }
        Ok(())
    } else {
        Err(("code-outside-ranges".into(), format!("ret_code {} is in no documented range: {}", code, r.out.error_message)))
    }
}

pub struct C02;

impl Property for C02 {
    type Case = HistCase;
    fn freeze(&self, case: &HistCase) -> HistCase {
        crate::props::hist::freeze_hist(case)
    }
    fn id(&self) -> &'static str {
        "C02"
    }
    fn rule(&self) -> String {
        "history = generated script (ANY/STREAM profile) x schedule, every run classified by ret_code range; plus per history injected faulty runs (mangled current data, bogus call results, bad key material, size limits). Non-trivial = a run that returned the previous data (codes 1..9999, 20000..29999) with non-empty prev_data, or a new-data run that consumed >= 1 call result; distinct by (ret_code, fnv(prev,cur,results))".into()
    }
    fn bounds(&self, tier: Tier) -> Value {
        json!({"skeleton_depth": tier.pick(5, 7), "skeleton_size": tier.pick(30, 60), "schedule_len": 40, "peers": "3..5", "max_steps": 300})
    }
    fn cases(&self, tier: Tier) -> u32 {
        tier.pick(20_000, 400_000)
    }
    fn strategy(&self, tier: Tier) -> BoxedStrategy<HistCase> {
        prop_oneof![
            hist_strategy_dom(2, tier.pick(5, 7), tier.pick(30, 60), 40, false, true),
            hist_strategy_dom(1, tier.pick(5, 7), tier.pick(30, 60), 40, false, true)
        ]
        .boxed()
    }
    fn required_classes(&self) -> Vec<&'static str> {
        vec!["prev_returned_run", "fault:mangled_cur", "fault:bogus_results", "fault:bad_key", "catchable_end"]
    }
    fn check(&self, case: &HistCase, _tier: Tier) -> CaseResult {
        let h = match simulate(case) {
            Ok(h) => h,
            Err(e) => return CaseResult::Discard(e),
        };
        let mut rep = CaseReport { classes: hist_classes(&h), ..Default::default() };
        rep.evals = h.log.len() as u64;
        for r in &h.log {
            if let Err((sig, msg)) = c02_check_run(&h, r, true) {
                return CaseResult::Violation(viol(&format!("C02:{}", sig), msg, &h, r.step), rep);
            }
            let key = fnv(format!("{}:{}:{}:{}", r.out.ret_code, fnv(&r.prev), fnv(&r.cur), r.results.len()).as_bytes());
            if is_prev_returned(r.out.ret_code) && !r.prev.is_empty() {
                rep.nontrivial.push(key);
                rep.classes.push("prev_returned_run".into());
            } else if !r.answered.is_empty() && is_new_data(r.out.ret_code) {
                rep.nontrivial.push(key);
            }
            rep.classes.push(format!("code:{}", r.out.ret_code));
        }
        // fault injection on a few recorded runs
        let n = h.log.len();
        for (k, c) in case.extra.iter().enumerate() {
            let r0 = &h.log[pick(*c, n)];
            let peer = &h.script.peers[r0.peer];
            let mut r = r0.clone();
            let label;
            match k % 5 {
                0 => {
                    // mangled current data
                    let src = if r0.cur.is_empty() { r0.out.data.clone() } else { r0.cur.clone() };
                    r.cur = crate::props::faults::mangle(&src, *c);
                    label = "fault:mangled_cur";
                    r.out = run(&h.particle, peer, &r.prev, &r.cur, &r.results, &Limits::default());
                }
                1 => {
                    // bogus call results: unknown ids, non-json, error results
                    r.results = crate::props::faults::bogus_results(*c);
                    r.answered.clear();
                    label = "fault:bogus_results";
                    r.out = run(&h.particle, peer, &r.prev, &r.cur, &r.results, &Limits::default());
                }
                2 => {
                    // bad key material
                    let mut params = run_params(&h.particle, peer, &Limits::default());
                    match c % 3 {
                        0 => params.key_format = 1 + (c % 200) as u8,
                        1 => params.secret_key_bytes = vec![1, 2, 3],
                        _ => params.secret_key_bytes = vec![],
                    }
                    label = "fault:bad_key";
                    r.out = run_raw(&h.particle.script, &r.prev, &r.cur, params, encode_results(&r.results));
                }
                3 => {
                    // hard size limits
                    let lim = Limits { air: (c % 64) as u64, particle: u64::MAX, call_result: u64::MAX, hard: true };
                    label = "fault:hard_limit";
                    r.out = run(&h.particle, peer, &r.prev, &r.cur, &r.results, &lim);
                }
                _ => {
                    // raw garbage as call results bytes
                    let params = run_params(&h.particle, peer, &Limits::default());
                    let garbage: Vec<u8> = (0..(c % 40)).map(|i| (i as u16 ^ c) as u8).collect();
                    label = "fault:garbage_results_bytes";
                    r.answered.clear();
                    r.out = run_raw(&h.particle.script, &r.prev, &r.cur, params, garbage);
                }
            }
            rep.evals += 1;
            rep.classes.push(label.to_string());
            rep.classes.push(format!("code:{}", r.out.ret_code));
            // results in a faulty run are not guaranteed to answer pending requests
            let mut r2 = r.clone();
            if label != "fault:mangled_cur" && label != "fault:bad_key" && label != "fault:hard_limit" {
                r2.answered.clear();
            }
            if let Err((sig, msg)) = c02_check_run(&h, &r2, true) {
                let mut v = viol(&format!("C02:{}:{}", label, sig), msg, &h, r0.step);
                v.detail["fault"] = json!({"label": label, "c": c, "cur_hex": hex(&r.cur), "results": format!("{:?}", r.results)});
                return CaseResult::Violation(v, rep);
            }
            if is_prev_returned(r.out.ret_code) && !r.prev.is_empty() {
                rep.nontrivial.push(fnv(format!("{}:{}:{}", label, r.out.ret_code, fnv(&r.cur)).as_bytes()));
                rep.classes.push("prev_returned_run".into());
            }
        }
        rep.sample = Some(sample_of(&h));
        CaseResult::Ok(rep)
    }
}

// ------------------------------------------------------------------------------ C03

pub fn version_supported(v: &semver::Version) -> bool {
    v >= air::min_supported_version()
}

pub struct C03;

pub fn c03_check_data(h: &Hist, r: &RunRecord) -> Result<usize, (String, String)> {
    let me = &h.script.peers[r.peer].id;
    let d = decode_data(&r.out.data).map_err(|e| ("undecodable".to_string(), e))?;
    if !version_supported(&d.versions.interpreter_version) {
        return Err(("unsupported-version".into(), format!("data carries interpreter version {}", d.versions.interpreter_version)));
    }
    closure_check(&d.data).map_err(|e| ("closure".to_string(), e))?;
    let n = signature_check(&d.data, &h.particle.particle_id).map_err(|e| ("signature".to_string(), e))?;
    let by_peer = cids_by_peer(&d.data).map_err(|e| ("closure".to_string(), e))?;
    if by_peer.contains_key(me) {
        let sigs = signatures(&d.data).map_err(|e| ("signature".to_string(), e))?;
        if !sigs.contains_key(me) {
            return Err(("own-key-missing".into(), format!("peer {} has results but no signature entry", me)));
        }
    }
    // differential: a fresh observer accepts it as current data
    let o = observe(&h.script, &h.particle, &[], &r.out.data);
    if (1..=9999).contains(&o.ret_code) {
        return Err((format!("observer-rejects:{}", o.ret_code), format!("observer got preparation error {}: {}", o.ret_code, o.error_message)));
    }
    Ok(n)
}

impl Property for C03 {
    type Case = HistCase;
    fn freeze(&self, case: &HistCase) -> HistCase {
        crate::props::hist::freeze_hist(case)
    }
    fn id(&self) -> &'static str {
        "C03"
    }
    fn rule(&self) -> String {
        "every new-data outcome of honest STREAM histories: decodes, supported version, independent CID-store closure, independent signature verification per peer; accepted as current data without a preparation error by a fresh observer, by an observer that has merged all earlier data of the particle, and by every receiving peer of the history. Non-trivial = data with results of >= 2 peers and (a canon or a failed call); distinct by data hash".into()
    }
    fn bounds(&self, tier: Tier) -> Value {
        json!({"skeleton_depth": tier.pick(5, 7), "skeleton_size": tier.pick(30, 60), "schedule_len": 40, "peers": "3..5"})
    }
    fn cases(&self, tier: Tier) -> u32 {
        tier.pick(12_000, 300_000)
    }
    fn strategy(&self, tier: Tier) -> BoxedStrategy<HistCase> {
        prop_oneof![
            8 => hist_strategy(1, tier.pick(5, 7), tier.pick(30, 60), 40, false),
            1 => hist_strategy(1, tier.pick(5, 7), tier.pick(30, 60), 40, true),
        ]
        .boxed()
    }
    fn required_classes(&self) -> Vec<&'static str> {
        vec!["has_canon", "has_failing_service", "catchable_end", "redelivery", "cumulative_merge"]
    }
    fn check(&self, case: &HistCase, _tier: Tier) -> CaseResult {
        let h = match simulate(case) {
            Ok(h) => h,
            Err(e) => return CaseResult::Discard(e),
        };
        let mut rep = CaseReport { classes: hist_classes(&h), ..Default::default() };
        if case.non_json {
            rep.classes.push("non_json_subdomain".into());
        }
        // a cumulative observer merges every produced data in production order: a receiver that
        // already holds older results of the producing peers
        let mut cumulative: Vec<u8> = vec![];
        for r in &h.log {
            // receivers in the history itself: honest data must never be refused in preparation
            if !r.cur.is_empty() && (1..=9999).contains(&r.out.ret_code) {
                return CaseResult::Violation(
                    viol(&format!("C03:receiver-rejects:{}", r.out.ret_code), format!("peer {} refused honest data with preparation error {}: {}", h.script.peers[r.peer].name, r.out.ret_code, r.out.error_message), &h, r.step),
                    rep,
                );
            }
            if !is_new_data(r.out.ret_code) {
                continue;
            }
            rep.evals += 3;
            let o = run(&h.particle, &peer_key("observer-cumulative"), &cumulative, &r.out.data, &Default::default(), &Limits::default());
            if (1..=9999).contains(&o.ret_code) {
                return CaseResult::Violation(
                    viol(&format!("C03:cumulative-observer-rejects:{}", o.ret_code), format!("an observer holding the earlier data of this particle refused new honest data with preparation error {}: {}", o.ret_code, o.error_message), &h, r.step),
                    rep,
                );
            }
            if is_new_data(o.ret_code) {
                if !cumulative.is_empty() {
                    rep.classes.push("cumulative_merge".into());
                }
                cumulative = o.data;
            }
            match c03_check_data(&h, r) {
                Ok(n) => {
                    let d = decode_data(&r.out.data).unwrap();
                    let k = knowledge(&d.data);
                    let interesting = k.keys().any(|(kind, _)| kind == "canon" || kind == "fail");
                    if n >= 2 && interesting {
                        rep.nontrivial.push(fnv(&r.out.data));
                    }
                }
                Err((sig, msg)) => {
                    let sub = if case.non_json && h.script.services.values().any(|s| matches!(s, crate::script::Ret::NonJson)) { "nonjson:" } else { "" };
                    return CaseResult::Violation(viol(&format!("C03:{}{}", sub, sig), msg, &h, r.step), rep);
                }
            }
        }
        rep.sample = Some(sample_of(&h));
        CaseResult::Ok(rep)
    }
}

// ------------------------------------------------------------------------------ C04

pub const C04_FORBIDDEN: [i64; 11] = [2, 3, 4, 8, 9, 20000, 20001, 20006, 20010, 20011, 20012];
pub const C04_FORBIDDEN2: [i64; 1] = [20017];

pub struct C04;

impl Property for C04 {
    type Case = HistCase;
    fn freeze(&self, case: &HistCase) -> HistCase {
        crate::props::hist::freeze_hist(case)
    }
    fn id(&self) -> &'static str {
        "C04"
    }
    fn rule(&self) -> String {
        "honest STREAM histories under random schedules (duplicates, late/batched results), and for small scripts (<= 4 calls, <= 14 instructions) (for a fifth of them) every schedule of progress actions up to 200 complete schedules: no run returns a data-consistency code (2,3,4,8,9,20000,20001,20006,20010,20011,20012,20017). Non-trivial = history in which some peer received data from >= 2 different senders, with par + (fold over stream or canon) in the script; distinct by (script, schedule) hash".into()
    }
    fn bounds(&self, tier: Tier) -> Value {
        json!({"skeleton_depth": tier.pick(5, 7), "skeleton_size": tier.pick(30, 60), "schedule_len": 60, "peers": "3..5"})
    }
    fn cases(&self, tier: Tier) -> u32 {
        tier.pick(30_000, 600_000)
    }
    fn strategy(&self, tier: Tier) -> BoxedStrategy<HistCase> {
        hist_strategy(1, tier.pick(5, 7), tier.pick(30, 60), 60, false)
    }
    fn required_classes(&self) -> Vec<&'static str> {
        vec!["has_par", "has_fold_stream", "has_canon", "redelivery", "results_with_data", "has_new", "small_script_all_schedules"]
    }
    fn check(&self, case: &HistCase, _tier: Tier) -> CaseResult {
        let h = match simulate(case) {
            Ok(h) => h,
            Err(e) => return CaseResult::Discard(e),
        };
        let mut rep = CaseReport { classes: hist_classes(&h), ..Default::default() };
        rep.evals = h.log.len() as u64;
        for r in &h.log {
            let c = r.out.ret_code;
            rep.classes.push(format!("code:{}", c));
            if C04_FORBIDDEN.contains(&c) || C04_FORBIDDEN2.contains(&c) {
                return CaseResult::Violation(
                    viol(&format!("C04:code-{}", c), format!("honest run failed with {}: {}", c, r.out.error_message), &h, r.step),
                    rep,
                );
            }
        }
        // small scripts: every schedule of progress actions (bounded-exhaustive)
        if h.script.feat.calls <= 4 && h.script.instr.count() <= 14 && case.extra[0] % 5 == 0 {
            let mut bad: Option<(i64, String, usize)> = None;
            let (leaves, runs, exhausted) = explore_all(&h.script, 200, 24, &mut |r: &RunRecord| {
                let c = r.out.ret_code;
                if C04_FORBIDDEN.contains(&c) || C04_FORBIDDEN2.contains(&c) {
                    bad = Some((c, r.out.error_message.clone(), r.step));
                    return false;
                }
                true
            });
            rep.evals += runs as u64;
            if let Some((c, msg, step)) = bad {
                return CaseResult::Violation(viol(&format!("C04:exhaustive:code-{}", c), format!("some schedule of this small script makes an honest run fail with {}: {} (step {} of the schedule)", c, msg, step), &h, step), rep);
            }
            if exhausted {
                rep.classes.push("small_script_all_schedules".into());
                rep.classes.push(format!("schedules:{}", if leaves < 10 { "1-9" } else if leaves < 100 { "10-99" } else { "100-200" }));
            } else {
                rep.classes.push("small_script_schedule_bound_hit".into());
            }
        }
        let f = &h.script.feat;
        let multi_sender = h.peers.iter().any(|p| p.delivered.len() >= 2);
        if multi_sender && f.pars > 0 && (f.fold_stream > 0 || f.canons > 0) {
            rep.nontrivial.push(fnv(format!("{}|{:?}", h.script.text, case.sched).as_bytes()));
        }
        rep.sample = Some(sample_of(&h));
        CaseResult::Ok(rep)
    }
}

// ------------------------------------------------------------------------------ C09

/// positions covered by some stream-fold iteration (lore subtraces) of the trace
pub fn fold_covered(d: &air_interpreter_data::InterpreterData) -> Vec<bool> {
    let n = d.trace.len();
    let mut cov = vec![false; n];
    for st in d.trace.iter() {
        if let air_interpreter_data::ExecutedState::Fold(f) = st {
            for e in &f.lore {
                for sd in &e.subtraces_desc {
                    let b = usize::from(sd.begin_pos);
                    for p in b..(b + sd.subtrace_len as usize).min(n) {
                        cov[p] = true;
                    }
                }
            }
        }
    }
    cov
}

/// number of stream-fold regions covering each position
pub fn fold_depth(d: &air_interpreter_data::InterpreterData) -> Vec<usize> {
    let n = d.trace.len();
    let mut depth = vec![0usize; n];
    for st in d.trace.iter() {
        if let air_interpreter_data::ExecutedState::Fold(f) = st {
            for e in &f.lore {
                for sd in &e.subtraces_desc {
                    let b = usize::from(sd.begin_pos);
                    for p in b..(b + sd.subtrace_len as usize).min(n) {
                        depth[p] += 1;
                    }
                }
            }
        }
    }
    depth
}

pub fn max_fold_depth_of(d: &air_interpreter_data::InterpreterData, cid: &str) -> usize {
    let depth = fold_depth(d);
    d.trace.iter().enumerate().filter(|(_, st)| state_cid(st).as_deref() == Some(cid)).map(|(i, _)| depth[i]).max().unwrap_or(0)
}

pub fn state_cid(st: &air_interpreter_data::ExecutedState) -> Option<String> {
    use air_interpreter_data::*;
    match st {
        ExecutedState::Call(CallResult::Executed(ValueRef::Scalar(c)))
        | ExecutedState::Call(CallResult::Executed(ValueRef::Stream { cid: c, .. }))
        | ExecutedState::Call(CallResult::Failed(c)) => Some(c.get_inner().to_string()),
        ExecutedState::Call(CallResult::Executed(ValueRef::Unused(c))) => Some(c.get_inner().to_string()),
        ExecutedState::Canon(CanonResult::Executed(c)) => Some(c.get_inner().to_string()),
        _ => None,
    }
}

pub fn all_occurrences_in_folds(d: &air_interpreter_data::InterpreterData, cid: &str) -> bool {
    let cov = fold_covered(d);
    let mut any = false;
    for (i, st) in d.trace.iter().enumerate() {
        if state_cid(st).as_deref() == Some(cid) {
            any = true;
            if !cov[i] {
                return false;
            }
        }
    }
    any
}

pub struct C09;

impl Property for C09 {
    type Case = HistCase;
    fn freeze(&self, case: &HistCase) -> HistCase {
        crate::props::hist::freeze_hist(case)
    }
    fn id(&self) -> &'static str {
        "C09"
    }
    fn rule(&self) -> String {
        "every non-failing run of honest STREAM histories: for each (kind, CID) the output count >= max(count in prev, count in current) and the referenced aggregates are stored. Non-trivial = run where prev and current both non-empty and neither knowledge multiset contains the other; distinct by (prev,cur) hash".into()
    }
    fn bounds(&self, tier: Tier) -> Value {
        json!({"skeleton_depth": tier.pick(5, 7), "skeleton_size": tier.pick(30, 60), "schedule_len": 60, "peers": "3..5"})
    }
    fn cases(&self, tier: Tier) -> u32 {
        tier.pick(30_000, 600_000)
    }
    fn strategy(&self, tier: Tier) -> BoxedStrategy<HistCase> {
        hist_strategy(1, tier.pick(5, 7), tier.pick(30, 60), 60, false)
    }
    fn required_classes(&self) -> Vec<&'static str> {
        vec!["has_par", "has_fold_stream", "incomparable_merge"]
    }
    fn check(&self, case: &HistCase, _tier: Tier) -> CaseResult {
        let h = match simulate(case) {
            Ok(h) => h,
            Err(e) => return CaseResult::Discard(e),
        };
        let mut rep = CaseReport { classes: hist_classes(&h), ..Default::default() };
        for r in &h.log {
            if !is_new_data(r.out.ret_code) {
                continue;
            }
            rep.evals += 1;
            let (dp, dc, dn) = match (decode_data(&r.prev), decode_data(&r.cur), decode_data(&r.out.data)) {
                (Ok(a), Ok(b), Ok(c)) => (a, b, c),
                _ => continue,
            };
            let (kp, kc, kn) = (knowledge(&dp.data), knowledge(&dc.data), knowledge(&dn.data));
            for (src, k) in [("prev", &kp), ("current", &kc)] {
                for (key, cnt) in k {
                    let have = kn.get(key).cloned().unwrap_or(0);
                    if have < *cnt {
                        // known-finding class K1: the forgotten result sits inside a stream-fold
                        // iteration of the *current* data and the script has a stream fold whose
                        // `next` is not unconditionally executed (DESIGN §14 K1)
                        let d_src = if src == "prev" { &dp.data } else { &dc.data };
                        let in_fold = all_occurrences_in_folds(d_src, &key.1);
                        let nested = max_fold_depth_of(d_src, &key.1) >= 2;
                        let sig = if src == "current" && in_fold && nested && h.script.feat.nested_stream_fold > 0 {
                            // class K3: nested stream folds over a stream that outer iterations append to
                            "C09:forgot-current-in-nested-stream-fold".to_string()
                        } else if src == "current" && in_fold && h.script.feat.seq_stream_fold > 0 {
                            "C09:forgot-current-in-seq-stream-fold".to_string()
                        } else if src == "current" && in_fold && crate::script::appends_inside_stream_folds(&h.script.instr) > 0 {
                            // class K8: a stream filled from inside stream-fold iterations (whose order differs
                            // between peers) is folded over; the iterations of that fold cannot be matched on merge
                            "C09:forgot-current-in-fold-over-stream-filled-in-stream-fold".to_string()
                        } else {
                            format!("C09:forgot-{}-{}", src, key.0)
                        };
                        return CaseResult::Violation(
                            viol(
                                &sig,
                                format!("{} data has {} x ({}, {}) but the new data has {}", src, cnt, key.0, key.1, have),
                                &h,
                                r.step,
                            ),
                            rep,
                        );
                    }
                }
            }
            if let Err(e) = closure_check(&dn.data) {
                return CaseResult::Violation(viol("C09:content-missing", e, &h, r.step), rep);
            }
            let p_not_in_c = kp.iter().any(|(k, n)| kc.get(k).cloned().unwrap_or(0) < *n);
            let c_not_in_p = kc.iter().any(|(k, n)| kp.get(k).cloned().unwrap_or(0) < *n);
            if p_not_in_c && c_not_in_p {
                rep.nontrivial.push(fnv(&[r.prev.clone(), r.cur.clone()].concat()));
                rep.classes.push("incomparable_merge".into());
            }
        }
        rep.sample = Some(sample_of(&h));
        CaseResult::Ok(rep)
    }
}

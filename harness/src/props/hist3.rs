//! C08 (order independence), C12 (stream order stability), C21 (versions), C22 (limits).

use crate::core::*;
use crate::engine::*;
use crate::gen::pick;
use crate::model::data::*;
use crate::props::hist::*;
use crate::props::hist2::outcome_projection;
use crate::script::{Arg, I};
use crate::sim::*;
use air_interpreter_data::{CallResult, ExecutedState, Sender, ValueRef};
use proptest::prelude::*;
use serde_json::{json, Value};
use std::collections::{BTreeMap, BTreeSet};

fn viol(sig: &str, msg: String, h: &Hist, step: usize) -> Violation {
    Violation {
        signature: sig.to_string(),
        message: msg,
        detail: json!({"step": step, "script": h.script.text, "actions": h.log.iter().map(|r| action_json(&r.action)).collect::<Vec<_>>()}),
    }
}

fn std_bounds(tier: Tier, sched: usize) -> Value {
    json!({"skeleton_depth": tier.pick(5, 7), "skeleton_size": tier.pick(30, 60), "schedule_len": sched, "peers": "3..5", "max_steps": 300})
}

// ------------------------------------------------------------------------------ C08

fn permutations(n: usize) -> Vec<Vec<usize>> {
    fn rec(cur: &mut Vec<usize>, used: &mut Vec<bool>, n: usize, out: &mut Vec<Vec<usize>>) {
        if cur.len() == n {
            out.push(cur.clone());
            return;
        }
        for i in 0..n {
            if !used[i] {
                used[i] = true;
                cur.push(i);
                rec(cur, used, n, out);
                cur.pop();
                used[i] = false;
            }
        }
    }
    let mut out = vec![];
    rec(&mut vec![], &mut vec![false; n], n, &mut out);
    out
}

/// trace with every RequestSentBy sender replaced by a placeholder
fn normalized_trace(d: &air_interpreter_data::InterpreterData) -> Value {
    let mut v = serde_json::to_value(&d.trace).unwrap();
    fn walk(v: &mut Value) {
        match v {
            Value::Object(o) => {
                if let Some(x) = o.get_mut("sent_by") {
                    *x = json!("<sender>");
                }
                for (_, c) in o.iter_mut() {
                    walk(c);
                }
            }
            Value::Array(a) => a.iter_mut().for_each(walk),
            _ => {}
        }
    }
    walk(&mut v);
    v
}

pub struct C08;

impl Property for C08 {
    type Case = HistCase;
    fn freeze(&self, case: &HistCase) -> HistCase {
        crate::props::hist::freeze_hist(case)
    }
    fn id(&self) -> &'static str {
        "C08"
    }
    fn rule(&self) -> String {
        "sets of 2..4 data blobs (final data of the peers plus an intermediate one) of one honest history, merged at a fresh observer (which executes nothing) and at a participating peer in all permutations, and in groupings (a subset pre-merged at a second observer): the knowledge multiset (kind, CID) must be identical; for scripts without streams/maps the traces must be identical up to request senders. Stream folds are generated in the par-next shape only in half of the cases (known-finding class K1 excluded by construction there). Non-trivial = blob set with two incomparable blobs; distinct by blob-set hash".into()
    }
    fn bounds(&self, tier: Tier) -> Value {
        std_bounds(tier, 40)
    }
    fn cases(&self, tier: Tier) -> u32 {
        tier.pick(6000, 80_000)
    }
    fn strategy(&self, tier: Tier) -> BoxedStrategy<HistCase> {
        prop_oneof![
            3 => hist_strategy(1, tier.pick(5, 7), tier.pick(30, 60), 40, false),
            1 => hist_strategy(0, tier.pick(5, 7), tier.pick(30, 60), 40, false),
        ]
        .boxed()
    }
    fn required_classes(&self) -> Vec<&'static str> {
        vec!["incomparable_blobs", "no_streams_exact_trace", "has_fold_stream", "grouping", "participant_merge"]
    }
    fn check(&self, case: &HistCase, _tier: Tier) -> CaseResult {
        let h = match simulate(case) {
            Ok(h) => h,
            Err(e) => return CaseResult::Discard(e),
        };
        let mut rep = CaseReport { classes: hist_classes(&h), ..Default::default() };
        // blob set
        let mut blobs: Vec<Vec<u8>> = h.peers.iter().filter(|p| !p.prev.is_empty()).map(|p| p.prev.clone()).collect();
        let inter: Vec<&RunRecord> = h.log.iter().filter(|r| is_new_data(r.out.ret_code)).collect();
        if !inter.is_empty() {
            let r = inter[pick(case.extra[0], inter.len())];
            if !blobs.contains(&r.out.data) {
                blobs.push(r.out.data.clone());
            }
        }
        blobs.dedup();
        if blobs.len() < 2 {
            return CaseResult::Ok(rep);
        }
        // keep at most 4, chosen by the case
        while blobs.len() > 4 {
            let i = pick(case.extra[1], blobs.len());
            blobs.remove(i);
        }
        let ks: Vec<Knowledge> = blobs.iter().filter_map(|b| decode_data(b).ok()).map(|d| knowledge(&d.data)).collect();
        let sub = |a: &Knowledge, b: &Knowledge| a.iter().all(|(k, n)| b.get(k).cloned().unwrap_or(0) >= *n);
        let incomparable = (0..ks.len()).any(|i| (0..ks.len()).any(|j| i != j && !sub(&ks[i], &ks[j]) && !sub(&ks[j], &ks[i])));
        if incomparable {
            rep.classes.push("incomparable_blobs".into());
            rep.nontrivial.push(fnv(&blobs.concat()));
        }
        let no_streams = h.script.feat.stream_appends + h.script.feat.map_appends + h.script.feat.canons + h.script.feat.fold_stream + h.script.feat.fold_map == 0;
        let k1_possible = h.script.feat.seq_stream_fold > 0;
        let obs = observer_key();
        let obs2 = peer_key("observer2");
        let merge_all = |who: &PeerKey, start: &[u8], order: &[usize]| -> Result<Vec<u8>, (i64, String)> {
            let mut prev = start.to_vec();
            for i in order {
                let o = run(&h.particle, who, &prev, &blobs[*i], &BTreeMap::new(), &Limits::default());
                if is_prev_returned(o.ret_code) {
                    return Err((o.ret_code, o.error_message));
                }
                prev = o.data;
            }
            Ok(prev)
        };
        let perms = permutations(blobs.len());
        let mut reference: Option<(Knowledge, Value, Vec<usize>)> = None;
        let mut results: Vec<(String, Vec<usize>, Vec<u8>)> = vec![];
        for p in &perms {
            rep.evals += p.len() as u64;
            match merge_all(&obs, &[], p) {
                Ok(d) => results.push(("observer".into(), p.clone(), d)),
                Err((code, msg)) => {
                    return CaseResult::Violation(viol(&format!("C08:merge-fails-{}", code), format!("merging honest data in order {:?} fails: {}", p, msg), &h, 0), rep)
                }
            }
        }
        // groupings: pre-merge the first two of a permutation at a second observer
        if blobs.len() >= 3 {
            let p = &perms[pick(case.extra[2], perms.len())];
            let pre = merge_all(&obs2, &[], &p[..2]);
            if let Ok(pre) = pre {
                let mut prev = vec![];
                let mut ok = true;
                for cur in [pre].iter().chain(p[2..].iter().map(|i| &blobs[*i])) {
                    let o = run(&h.particle, &obs, &prev, cur, &BTreeMap::new(), &Limits::default());
                    rep.evals += 1;
                    if is_prev_returned(o.ret_code) {
                        return CaseResult::Violation(viol(&format!("C08:grouped-merge-fails-{}", o.ret_code), format!("merging a pre-merged group fails: {}", o.error_message), &h, 0), rep);
                    }
                    prev = o.data;
                    ok = true;
                }
                if ok {
                    rep.classes.push("grouping".into());
                    results.push(("grouped".into(), p.clone(), prev));
                }
            }
        }
        if std::env::var("VERIF_DEBUG_C08").is_ok() {
            for (i, b) in blobs.iter().enumerate() {
                if let Ok(d) = decode_data(b) {
                    println!("blob {}: {}", i, crate::model::show::trace(&d.data));
                }
            }
            for (how, p, bytes) in &results {
                if let Ok(d) = decode_data(bytes) {
                    println!("{} {:?}: {}", how, p, crate::model::show::trace(&d.data));
                }
            }
        }
        for (how, p, bytes) in &results {
            let d = match decode_data(bytes) {
                Ok(d) => d,
                Err(e) => return CaseResult::Violation(viol("C08:undecodable", e, &h, 0), rep),
            };
            let k = knowledge(&d.data);
            let t = normalized_trace(&d.data);
            match &reference {
                None => reference = Some((k, t, p.clone())),
                Some((k0, t0, p0)) => {
                    if *k0 != k {
                        let diff: Vec<String> = k0
                            .iter()
                            .filter(|(key, n)| k.get(*key).cloned().unwrap_or(0) != **n)
                            .map(|(key, n)| format!("{}:{} x{} vs x{}", key.0, &key.1[key.1.len().saturating_sub(6)..], n, k.get(key).cloned().unwrap_or(0)))
                            .chain(k.iter().filter(|(key, _)| !k0.contains_key(*key)).map(|(key, n)| format!("{}:{} x0 vs x{}", key.0, &key.1[key.1.len().saturating_sub(6)..], n)))
                            .collect();
                        let sig = if k1_possible {
                            "C08:knowledge-differs-seq-stream-fold"
                        } else if crate::script::stream_fold_with_last_instruction(&h.script.instr) {
                            // class K9: results of the last instruction of a stream fold
                            "C08:knowledge-differs-stream-fold-last-instruction"
                        } else {
                            "C08:knowledge-differs"
                        };
                        return CaseResult::Violation(viol(sig, format!("order {:?} and order {:?} ({}) give different knowledge: {:?}", p0, p, how, diff), &h, 0), rep);
                    }
                    if no_streams {
                        rep.classes.push("no_streams_exact_trace".into());
                        if *t0 != t {
                            return CaseResult::Violation(viol("C08:trace-differs-no-streams", format!("script without streams: order {:?} and {:?} ({}) give different traces", p0, p, how), &h, 0), rep);
                        }
                    }
                }
            }
        }
        // at a participating peer: its own final data as prev, others in two orders
        if let Some((pi, pst)) = h.peers.iter().enumerate().find(|(_, p)| !p.prev.is_empty() && p.pending.is_empty()) {
            let others: Vec<usize> = (0..blobs.len()).filter(|i| blobs[*i] != pst.prev).collect();
            if others.len() >= 2 {
                let mut rev = others.clone();
                rev.reverse();
                let who = &h.script.peers[pi];
                let a = merge_all(who, &pst.prev, &others);
                let b = merge_all(who, &pst.prev, &rev);
                rep.evals += 2 * others.len() as u64;
                if let (Ok(a), Ok(b)) = (a, b) {
                    if let (Ok(da), Ok(db)) = (decode_data(&a), decode_data(&b)) {
                        rep.classes.push("participant_merge".into());
                        // the participant may execute calls for itself while merging; compare what
                        // it knows of *other* peers' results
                        let foreign = |d: &air_interpreter_data::InterpreterData| -> Knowledge {
                            let own: BTreeSet<String> = cids_by_peer(d).ok().and_then(|m| m.get(&who.id).cloned()).unwrap_or_default().into_iter().collect();
                            knowledge(d).into_iter().filter(|((kind, c), _)| kind != "unused" && !own.contains(c)).collect()
                        };
                        let (ka, kb) = (foreign(&da.data), foreign(&db.data));
                        if ka != kb {
                            let sig = if k1_possible { "C08:participant-knowledge-differs-seq-stream-fold" } else { "C08:participant-knowledge-differs" };
                            return CaseResult::Violation(viol(sig, format!("peer {} merging {:?} vs {:?} ends with different knowledge of other peers' results", who.name, others, rev), &h, 0), rep);
                        }
                    }
                }
            }
        }
        rep.sample = Some(json!({"script": h.script.text, "blobs": blobs.len(), "orders": perms.len()}));
        CaseResult::Ok(rep)
    }
}

// ------------------------------------------------------------------------------ C12

/// function name -> global stream it writes to; names of streams restricted by `new`
fn stream_writers(i: &I) -> (BTreeMap<String, String>, BTreeSet<String>) {
    let mut w = BTreeMap::new();
    let mut restricted = BTreeSet::new();
    i.visit(&mut |n| match n {
        I::Call { func: Arg::Str(f), out: Some(o), .. } if o.starts_with('$') => {
            w.insert(f.clone(), o.clone());
        }
        I::New { var, .. } => {
            restricted.insert(var.clone());
        }
        _ => {}
    });
    (w, restricted)
}

/// per stream: value cid -> generation (values occurring once only)
fn stream_generations(d: &air_interpreter_data::InterpreterData, writers: &BTreeMap<String, String>, restricted: &BTreeSet<String>) -> BTreeMap<String, BTreeMap<String, u32>> {
    let mut out: BTreeMap<String, BTreeMap<String, u32>> = BTreeMap::new();
    let mut dup: BTreeSet<(String, String)> = BTreeSet::new();
    for st in d.trace.iter() {
        if let ExecutedState::Call(CallResult::Executed(ValueRef::Stream { cid, generation })) = st {
            let sr = match d.cid_info.service_result_store.get(cid) {
                Some(s) => s,
                None => continue,
            };
            let t = match d.cid_info.tetraplet_store.get(&sr.tetraplet_cid) {
                Some(t) => t,
                None => continue,
            };
            let stream = match writers.get(&t.function_name) {
                Some(s) if !restricted.contains(s) => s.clone(),
                _ => continue,
            };
            let key = cid.get_inner().to_string();
            let m = out.entry(stream.clone()).or_default();
            if m.insert(key.clone(), usize::from(*generation) as u32).is_some() {
                dup.insert((stream, key));
            }
        }
    }
    for (s, k) in dup {
        if let Some(m) = out.get_mut(&s) {
            m.remove(&k);
        }
    }
    out
}

pub struct C12;

impl Property for C12 {
    type Case = HistCase;
    fn freeze(&self, case: &HistCase) -> HistCase {
        crate::props::hist::freeze_hist(case)
    }
    fn id(&self) -> &'static str {
        "C12"
    }
    fn rule(&self) -> String {
        "consecutive data pairs (prev_data, new data) of every run on every peer in honest STREAM histories; stream values are call results matched by CID and attributed to a global stream through the function that produced them. Strict generation order of values already in prev_data is preserved; values only in current_data come after every value of prev_data; values produced in the run come after both; for scripts with a single stream and no maps/new the generations are dense from 0. Non-trivial = a run where prev, current and the run itself each contribute a value to one stream; distinct by (prev,cur) hash".into()
    }
    fn assumptions(&self) -> Vec<String> {
        vec!["ap-produced stream values carry no content id and are not matched; streams restricted by `new` are skipped (instances cannot be told apart)".into()]
    }
    fn bounds(&self, tier: Tier) -> Value {
        std_bounds(tier, 60)
    }
    fn cases(&self, tier: Tier) -> u32 {
        tier.pick(30_000, 300_000)
    }
    fn strategy(&self, tier: Tier) -> BoxedStrategy<HistCase> {
        hist_strategy(1, tier.pick(5, 7), tier.pick(30, 60), 60, false)
    }
    fn required_classes(&self) -> Vec<&'static str> {
        vec!["three_sources", "prev_and_current", "dense_checked"]
    }
    fn check(&self, case: &HistCase, _tier: Tier) -> CaseResult {
        let h = match simulate(case) {
            Ok(h) => h,
            Err(e) => return CaseResult::Discard(e),
        };
        let mut rep = CaseReport { classes: hist_classes(&h), ..Default::default() };
        let (writers, restricted) = stream_writers(&h.script.instr);
        if writers.is_empty() {
            return CaseResult::Ok(rep);
        }
        let single_stream = h.script.feat.map_appends == 0 && h.script.feat.news == 0 && {
            let mut names = BTreeSet::new();
            h.script.instr.visit(&mut |n| match n {
                I::Call { out: Some(o), .. } if o.starts_with('$') => {
                    names.insert(o.clone());
                }
                I::Ap { dst, .. } if dst.starts_with('$') => {
                    names.insert(dst.clone());
                }
                _ => {}
            });
            names.len() == 1
        };
        for r in &h.log {
            if !is_new_data(r.out.ret_code) {
                continue;
            }
            let (dp, dc, dn) = match (decode_data(&r.prev), decode_data(&r.cur), decode_data(&r.out.data)) {
                (Ok(a), Ok(b), Ok(c)) => (a, b, c),
                _ => continue,
            };
            rep.evals += 1;
            let gp = stream_generations(&dp.data, &writers, &restricted);
            let gc = stream_generations(&dc.data, &writers, &restricted);
            let gn = stream_generations(&dn.data, &writers, &restricted);
            for (stream, newg) in &gn {
                let empty = BTreeMap::new();
                let pg = gp.get(stream).unwrap_or(&empty);
                let cg = gc.get(stream).unwrap_or(&empty);
                // order preservation of prev values
                let pv: Vec<(&String, &u32)> = pg.iter().filter(|(k, _)| newg.contains_key(*k)).collect();
                for (u, gu) in &pv {
                    for (v, gv) in &pv {
                        if gu < gv && newg[*u] >= newg[*v] {
                            let mut vi = viol("C12:prev-order-swapped", format!("stream {}: {} (gen {}) was before {} (gen {}) in prev_data but after the run they have gens {} and {}", stream, &u[u.len() - 6..], gu, &v[v.len() - 6..], gv, newg[*u], newg[*v]), &h, r.step);
                            vi.detail["prev"] = json!(crate::model::show::trace(&dp.data));
                            vi.detail["new"] = json!(crate::model::show::trace(&dn.data));
                            return CaseResult::Violation(vi, rep);
                        }
                    }
                }
                let max_prev = pg.keys().filter_map(|k| newg.get(k)).max().cloned();
                let cur_only: Vec<&String> = cg.keys().filter(|k| !pg.contains_key(*k) && newg.contains_key(*k)).collect();
                let produced: Vec<&String> = newg.keys().filter(|k| !pg.contains_key(*k) && !cg.contains_key(*k)).collect();
                if let Some(mp) = max_prev {
                    for v in &cur_only {
                        if newg[*v] <= mp {
                            let mut vi = viol("C12:current-before-prev", format!("stream {}: value {} known only from current_data got generation {} which is not after prev_data's values (max {})", stream, &v[v.len() - 6..], newg[*v], mp), &h, r.step);
                            vi.detail["prev"] = json!(crate::model::show::trace(&dp.data));
                            vi.detail["cur"] = json!(crate::model::show::trace(&dc.data));
                            vi.detail["new"] = json!(crate::model::show::trace(&dn.data));
                            return CaseResult::Violation(vi, rep);
                        }
                    }
                }
                let max_known = pg.keys().chain(cg.keys()).filter_map(|k| newg.get(k)).max().cloned();
                if let Some(mk) = max_known {
                    for w in &produced {
                        if newg[*w] <= mk {
                            let mut vi = viol("C12:new-before-known", format!("stream {}: value {} produced in this run got generation {} which is not after the merged values (max {})", stream, &w[w.len() - 6..], newg[*w], mk), &h, r.step);
                            vi.detail["new"] = json!(crate::model::show::trace(&dn.data));
                            return CaseResult::Violation(vi, rep);
                        }
                    }
                }
                // order among current-only values is preserved too
                for u in &cur_only {
                    for v in &cur_only {
                        if cg[*u] < cg[*v] && newg[*u] >= newg[*v] {
                            return CaseResult::Violation(viol("C12:current-order-swapped", format!("stream {}: two values of current_data swapped", stream), &h, r.step), rep);
                        }
                    }
                }
                if !pv.is_empty() && !cur_only.is_empty() {
                    rep.classes.push("prev_and_current".into());
                    if !produced.is_empty() {
                        rep.classes.push("three_sources".into());
                    }
                    rep.nontrivial.push(fnv(&[r.prev.clone(), r.cur.clone()].concat()));
                }
            }
            if single_stream {
                let mut gens = BTreeSet::new();
                for st in dn.data.trace.iter() {
                    match st {
                        ExecutedState::Call(CallResult::Executed(ValueRef::Stream { generation, .. })) => {
                            gens.insert(usize::from(*generation));
                        }
                        ExecutedState::Ap(a) => {
                            for g in &a.res_generations {
                                gens.insert(usize::from(*g));
                            }
                        }
                        _ => {}
                    }
                }
                if !gens.is_empty() {
                    rep.classes.push("dense_checked".into());
                    let max = *gens.iter().max().unwrap();
                    if gens.len() != max + 1 {
                        let mut vi = viol("C12:generations-not-dense", format!("single-stream script: generations in use {:?} are not dense from 0", gens), &h, r.step);
                        vi.detail["new"] = json!(crate::model::show::trace(&dn.data));
                        return CaseResult::Violation(vi, rep);
                    }
                }
            }
        }
        let _ = Sender::PeerId;
        rep.sample = Some(sample_of(&h));
        CaseResult::Ok(rep)
    }
}

// ------------------------------------------------------------------------------ C21

/// semver precedence written from semver.org (build metadata ignored)
pub fn semver_lt(a: &(u64, u64, u64, String), b: &(u64, u64, u64, String)) -> bool {
    if (a.0, a.1, a.2) != (b.0, b.1, b.2) {
        return (a.0, a.1, a.2) < (b.0, b.1, b.2);
    }
    match (a.3.is_empty(), b.3.is_empty()) {
        (true, true) => false,
        (true, false) => false, // release > pre-release
        (false, true) => true,
        (false, false) => {
            let (ia, ib): (Vec<&str>, Vec<&str>) = (a.3.split('.').collect(), b.3.split('.').collect());
            for k in 0..ia.len().max(ib.len()) {
                match (ia.get(k), ib.get(k)) {
                    (None, Some(_)) => return true,
                    (Some(_), None) => return false,
                    (Some(x), Some(y)) => {
                        let (nx, ny) = (x.parse::<u64>().ok(), y.parse::<u64>().ok());
                        let ord = match (nx, ny) {
                            (Some(p), Some(q)) => p.cmp(&q),
                            (Some(_), None) => std::cmp::Ordering::Less,
                            (None, Some(_)) => std::cmp::Ordering::Greater,
                            (None, None) => x.cmp(y),
                        };
                        if ord != std::cmp::Ordering::Equal {
                            return ord == std::cmp::Ordering::Less;
                        }
                    }
                    (None, None) => {}
                }
            }
            false
        }
    }
}

pub struct C21;

impl Property for C21 {
    type Case = HistCase;
    fn freeze(&self, case: &HistCase) -> HistCase {
        crate::props::hist::freeze_hist(case)
    }
    fn id(&self) -> &'static str {
        "C21"
    }
    fn rule(&self) -> String {
        "envelopes re-wrapped with version triples on the grid {0,1} x {59..63} x {0,1,2} x pre-release {none, alpha, rc.1, 0} x build {none, b1} (plus data-format version variants) around otherwise valid data of honest histories, delivered to a peer holding honest prev_data: ret_code == 6 and data == prev_data iff the interpreter version precedes 0.61.0 under an independent semver precedence; empty current data behaves as an explicitly encoded empty data. Non-trivial = version within one step of the boundary; distinct by (version, data hash)".into()
    }
    fn bounds(&self, _tier: Tier) -> Value {
        json!({"grid": "2 x 5 x 3 x 4 x 2 = 240 interpreter versions x 3 data-format versions sampled per history"})
    }
    fn cases(&self, tier: Tier) -> u32 {
        tier.pick(2000, 20_000)
    }
    fn strategy(&self, tier: Tier) -> BoxedStrategy<HistCase> {
        hist_strategy(1, tier.pick(4, 6), tier.pick(16, 40), 20, false)
    }
    fn required_classes(&self) -> Vec<&'static str> {
        vec!["rejected_old", "accepted_supported", "boundary", "empty_current"]
    }
    fn check(&self, case: &HistCase, _tier: Tier) -> CaseResult {
        use air_interpreter_data::{InterpreterDataEnvelope, Versions};
        let h = match simulate(case) {
            Ok(h) => h,
            Err(e) => return CaseResult::Discard(e),
        };
        let mut rep = CaseReport { classes: hist_classes(&h), ..Default::default() };
        let deliveries: Vec<&RunRecord> = h.log.iter().filter(|r| !r.cur.is_empty() && r.results.is_empty() && is_new_data(r.out.ret_code)).collect();
        let min = (0u64, 61u64, 0u64, String::new());
        if !deliveries.is_empty() {
            let r = deliveries[pick(case.extra[0], deliveries.len())];
            let peer = &h.script.peers[r.peer];
            let d = match decode_data(&r.cur) {
                Ok(d) => d,
                Err(_) => return CaseResult::Ok(rep),
            };
            let inner = d.data.serialize().expect("serialize");
            for major in [0u64, 1] {
                for minor in 59u64..=63 {
                    for patch in 0u64..=2 {
                        for pre in ["", "alpha", "rc.1", "0"] {
                            for build in ["", "b1"] {
                                // sample the grid: 1/3 of the points per case, all points near the boundary
                                let near = major == 0 && (60..=61).contains(&minor);
                                let hsh = fnv(format!("{}{}{}{}{}{}", major, minor, patch, pre, build, case.extra[1]).as_bytes());
                                if !near && hsh % 3 != 0 {
                                    continue;
                                }
                                let mut text = format!("{}.{}.{}", major, minor, patch);
                                if !pre.is_empty() {
                                    text.push('-');
                                    text.push_str(pre);
                                }
                                if !build.is_empty() {
                                    text.push('+');
                                    text.push_str(build);
                                }
                                let iv = semver::Version::parse(&text).expect("grid version parses");
                                let dv_text = ["0.17.2", "0.1.0", "99.0.0"][(hsh % 3) as usize];
                                let versions = Versions { data_version: semver::Version::parse(dv_text).unwrap(), interpreter_version: iv };
                                let env = InterpreterDataEnvelope { versions, inner_data: inner.clone().into() };
                                let bytes = env.serialize().expect("envelope");
                                let o = run(&h.particle, peer, &r.prev, &bytes, &BTreeMap::new(), &Limits::default());
                                rep.evals += 1;
                                let old = semver_lt(&(major, minor, patch, pre.to_string()), &min);
                                if old {
                                    if o.ret_code != 6 {
                                        return CaseResult::Violation(viol("C21:old-version-not-rejected", format!("data from interpreter {} got code {} ({}) instead of the unsupported-version error", text, o.ret_code, o.error_message), &h, r.step), rep);
                                    }
                                    if o.data != r.prev {
                                        return CaseResult::Violation(viol("C21:prev-not-returned", format!("version {} rejected but prev_data not returned", text), &h, r.step), rep);
                                    }
                                    rep.classes.push("rejected_old".into());
                                } else {
                                    if o.ret_code == 6 {
                                        return CaseResult::Violation(viol("C21:supported-version-rejected", format!("data from supported interpreter {} (data format {}) rejected: {}", text, dv_text, o.error_message), &h, r.step), rep);
                                    }
                                    rep.classes.push("accepted_supported".into());
                                }
                                if near {
                                    rep.classes.push("boundary".into());
                                    rep.nontrivial.push(fnv(format!("{}{}", text, fnv(&r.cur)).as_bytes()));
                                }
                            }
                        }
                    }
                }
            }
        }
        // empty current data == explicitly encoded empty data
        let r = &h.log[pick(case.extra[2], h.log.len())];
        let peer = &h.script.peers[r.peer];
        let empty_enc = encode_data(&Versions::new(air::interpreter_version().clone()), &air_interpreter_data::InterpreterData::default());
        let a = run(&h.particle, peer, &r.prev, &[], &r.results, &Limits::default());
        let b = run(&h.particle, peer, &r.prev, &empty_enc, &r.results, &Limits::default());
        rep.evals += 2;
        rep.classes.push("empty_current".into());
        if outcome_projection(&a) != outcome_projection(&b) {
            return CaseResult::Violation(viol("C21:empty-current-differs", format!("empty current data gives code {} but an encoded empty data gives {}", a.ret_code, b.ret_code), &h, r.step), rep);
        }
        rep.sample = Some(json!({"script": h.script.text, "deliveries": deliveries.len()}));
        CaseResult::Ok(rep)
    }
}

// ------------------------------------------------------------------------------ C22

pub struct C22;

impl Property for C22 {
    type Case = HistCase;
    fn freeze(&self, case: &HistCase) -> HistCase {
        crate::props::hist::freeze_hist(case)
    }
    fn id(&self) -> &'static str {
        "C22"
    }
    fn rule(&self) -> String {
        "runs of ANY/STREAM histories re-executed under each of the three limits set to {0, size-1, size, size+1, max} (others unlimited) and under random combinations, in hard and soft mode. size(air) = script bytes, size(particle) = current data bytes, size(call result) = longest result string. Hard+exceeded => code 10, message names the limit, prev_data returned; otherwise the outcome equals the unlimited run and the flags are exactly the exceeded limits (soft) / all false (hard, not exceeded). Non-trivial = run with non-empty current data and >= 1 call result; distinct by (run, limit config)".into()
    }
    fn bounds(&self, tier: Tier) -> Value {
        json!({"configs_per_run": 30 + 8, "runs_per_history": tier.pick(2, 4)})
    }
    fn cases(&self, tier: Tier) -> u32 {
        tier.pick(8000, 100_000)
    }
    fn strategy(&self, tier: Tier) -> BoxedStrategy<HistCase> {
        prop_oneof![hist_strategy(1, tier.pick(4, 6), tier.pick(20, 40), 30, false), hist_strategy(2, tier.pick(4, 6), tier.pick(20, 40), 30, false)].boxed()
    }
    fn required_classes(&self) -> Vec<&'static str> {
        vec!["hard_exceeded", "soft_exceeded", "at_limit", "cur_and_results"]
    }
    fn check(&self, case: &HistCase, tier: Tier) -> CaseResult {
        let h = match simulate(case) {
            Ok(h) => h,
            Err(e) => return CaseResult::Discard(e),
        };
        let mut rep = CaseReport { classes: hist_classes(&h), ..Default::default() };
        let both: Vec<&RunRecord> = h.log.iter().filter(|r| !r.cur.is_empty() && !r.results.is_empty()).collect();
        let mut chosen: Vec<&RunRecord> = vec![];
        if !both.is_empty() {
            chosen.push(both[pick(case.extra[0], both.len())]);
        }
        for k in 1..tier.pick(2, 4) {
            chosen.push(&h.log[pick(case.extra[k % case.extra.len()], h.log.len())]);
        }
        for r in chosen {
            let peer = &h.script.peers[r.peer];
            let sizes = [h.particle.script.len() as u64, r.cur.len() as u64, r.results.values().map(|v| v.1.len() as u64).max().unwrap_or(0)];
            let has_results = !r.results.is_empty();
            let base = run(&h.particle, peer, &r.prev, &r.cur, &r.results, &Limits::default());
            let base_p = outcome_projection(&base);
            if !r.cur.is_empty() && has_results {
                rep.classes.push("cur_and_results".into());
            }
            let mut configs: Vec<[u64; 3]> = vec![];
            for kind in 0..3 {
                let s = sizes[kind];
                for v in [0u64, s.saturating_sub(1), s, s.saturating_add(1), u64::MAX] {
                    let mut c = [u64::MAX; 3];
                    c[kind] = v;
                    configs.push(c);
                }
            }
            for k in 0..4usize {
                let x = case.extra[k % case.extra.len()] as u64;
                let pickv = |s: u64, sel: u64| [0, s.saturating_sub(1), s, s + 1, u64::MAX][(sel % 5) as usize];
                configs.push([pickv(sizes[0], x), pickv(sizes[1], x / 5), pickv(sizes[2], x / 25)]);
            }
            for c in configs {
                for hard in [true, false] {
                    let lim = Limits { air: c[0], particle: c[1], call_result: c[2], hard };
                    let o = run(&h.particle, peer, &r.prev, &r.cur, &r.results, &lim);
                    rep.evals += 1;
                    let exceeded = [sizes[0] > c[0], sizes[1] > c[1], has_results && sizes[2] > c[2]];
                    let any = exceeded.iter().any(|x| *x);
                    if (0..3).any(|k| sizes[k] == c[k]) {
                        rep.classes.push("at_limit".into());
                    }
                    let mk = |sig: &str, msg: String| {
                        let mut v = viol(sig, msg, &h, r.step);
                        v.detail["limits"] = json!({"air": c[0], "particle": c[1], "call_result": c[2], "hard": hard, "sizes": sizes});
                        v
                    };
                    if hard && any {
                        rep.classes.push("hard_exceeded".into());
                        if o.ret_code != 10 {
                            return CaseResult::Violation(mk("C22:hard-not-rejected", format!("hard mode, exceeded {:?}, but code {} ({})", exceeded, o.ret_code, o.error_message)), rep);
                        }
                        if o.data != r.prev {
                            return CaseResult::Violation(mk("C22:hard-prev-not-returned", "hard limit rejection did not return prev_data".into()), rep);
                        }
                        // the message names the first exceeded limit in check order (air, particle, call result)
                        let names = ["air size", "particle size", "Call result size"];
                        let first = (0..3).find(|k| exceeded[*k]).unwrap();
                        if !o.error_message.contains(names[first]) {
                            return CaseResult::Violation(mk("C22:hard-wrong-message", format!("exceeded {:?} but the message is: {}", exceeded, o.error_message)), rep);
                        }
                    } else {
                        let mut p = outcome_projection(&o);
                        let flags = o.flags;
                        p["flags"] = base_p["flags"].clone();
                        if p != base_p {
                            let field = ["ret_code", "error_message", "data", "requests", "next_peers"].iter().find(|f| p[**f] != base_p[**f]).cloned().unwrap_or("?");
                            return CaseResult::Violation(mk("C22:outcome-differs-from-unlimited", format!("limits {:?} hard={} exceeded {:?}: {} differs from the unlimited run (code {} vs {})", c, hard, exceeded, field, o.ret_code, base.ret_code)), rep);
                        }
                        let want = if hard { (false, false, false) } else { (exceeded[0], exceeded[1], exceeded[2]) };
                        // flags are only observable on outcomes that got past preparation
                        if flags != want && !(1..=9).contains(&o.ret_code) {
                            return CaseResult::Violation(mk("C22:wrong-flags", format!("limits {:?} hard={}: flags {:?}, expected {:?}", c, hard, flags, want)), rep);
                        }
                        if !hard && any {
                            rep.classes.push("soft_exceeded".into());
                        }
                    }
                    if !r.cur.is_empty() && has_results {
                        rep.nontrivial.push(fnv(format!("{}{}{:?}{}", fnv(&r.cur), fnv(&r.prev), c, hard).as_bytes()));
                    }
                }
            }
        }
        rep.sample = Some(json!({"script": h.script.text}));
        CaseResult::Ok(rep)
    }
}

//! C24: lens selection agrees with plain JSON selection.

use crate::core::*;
use crate::engine::*;
use crate::gen::pick;
use crate::jsongen::*;
use crate::model::eval::navigate;
use crate::script::*;
use proptest::prelude::*;
use serde::{Deserialize, Serialize};
use serde_json::{json, Map, Value};
use std::collections::BTreeMap;

#[derive(Clone, Debug, Serialize, Deserialize)]
pub struct C24Case {
    pub value: Value,
    /// path choices: (kind, selector)
    pub path: Vec<[u16; 2]>,
    pub accessor: [u16; 2],
    /// 0 scalar, 1 canon stream, 2 canon map
    pub mode: u8,
    pub length: bool,
}

pub struct C24;

const KEYS: [&str; 8] = ["a", "b", "key", "x1", "n_2", "k-3", "A", "zz"];

fn addressable(k: &str) -> bool {
    !k.is_empty() && k.chars().all(|c| c.is_ascii_alphanumeric() || c == '_' || c == '-') && !k.chars().next().unwrap().is_ascii_digit()
}

/// values whose object keys are mostly lens-addressable
pub fn lens_value_strategy(depth: u32) -> BoxedStrategy<Value> {
    let key = prop_oneof![6 => (0..KEYS.len()).prop_map(|i| KEYS[i].to_string()), 1 => string_strategy()];
    leaf_strategy()
        .prop_recursive(depth, 40, 4, move |inner| {
            prop_oneof![
                proptest::collection::vec(inner.clone(), 0..4).prop_map(Value::Array),
                proptest::collection::vec((key.clone(), inner), 0..4).prop_map(|kv| {
                    let mut m = Map::new();
                    for (k, v) in kv {
                        m.insert(k, v);
                    }
                    Value::Object(m)
                }),
            ]
        })
        .boxed()
}

/// derive a concrete path by walking the value (mostly existing keys/indices so that deep
/// navigation succeeds often); returns (steps, value of the accessor scalar)
fn derive_path(root: &Value, choices: &[[u16; 2]], acc: [u16; 2]) -> (Vec<LensStep>, Value) {
    let mut steps = vec![];
    let mut cur: Option<&Value> = Some(root);
    let mut accessor: Option<Value> = None;
    for c in choices {
        let existing_keys: Vec<&String> = match cur {
            Some(Value::Object(o)) => o.keys().filter(|k| addressable(k)).collect(),
            _ => vec![],
        };
        let len = match cur {
            Some(Value::Array(a)) => a.len(),
            _ => 0,
        };
        let kind = pick(c[0], 10);
        let step = match kind {
            0..=3 => {
                // field: existing (80%) or missing
                if !existing_keys.is_empty() && c[1] % 5 != 0 {
                    LensStep::Field(existing_keys[pick(c[1], existing_keys.len())].clone())
                } else {
                    LensStep::Field(KEYS[pick(c[1], KEYS.len())].to_string())
                }
            }
            4..=6 => {
                if len > 0 && c[1] % 5 != 0 {
                    LensStep::Idx(pick(c[1], len) as u32)
                } else {
                    LensStep::Idx((len + (c[1] % 3) as usize) as u32)
                }
            }
            _ => {
                // by scalar: one accessor scalar per case, its value fixed at first use
                if accessor.is_none() {
                    accessor = Some(match pick(acc[0], 10) {
                        0..=3 if !existing_keys.is_empty() => json!(existing_keys[pick(acc[1], existing_keys.len())]),
                        0..=3 => json!(KEYS[pick(acc[1], KEYS.len())]),
                        4..=6 if len > 0 => json!(pick(acc[1], len)),
                        4..=6 => json!(acc[1] % 4),
                        7 => [json!(-1), json!(1.5), json!(4294967296u64), json!(1.0), json!(0.0)][pick(acc[1], 5)].clone(),
                        8 => [json!(null), json!(true), json!([0]), json!({"a": 1})][pick(acc[1], 4)].clone(),
                        _ => json!(""),
                    });
                }
                LensStep::ByScalar("k".into())
            }
        };
        // advance the cursor when the step succeeds
        cur = match (&step, cur) {
            (LensStep::Field(f), Some(Value::Object(o))) => o.get(f),
            (LensStep::Idx(i), Some(Value::Array(a))) => a.get(*i as usize),
            (LensStep::ByScalar(_), Some(v)) => match (accessor.as_ref(), v) {
                (Some(Value::String(s)), Value::Object(o)) => o.get(s),
                (Some(Value::Number(n)), Value::Array(a)) => n.as_u64().and_then(|i| a.get(i as usize)),
                _ => None,
            },
            _ => None,
        };
        steps.push(step);
    }
    (steps, accessor.unwrap_or(json!("a")))
}

fn me() -> Arg {
    Arg::InitPeer
}

fn call(svc: &str, func: &str, args: Vec<Arg>, out: Option<&str>) -> I {
    I::Call { peer: me(), svc: Arg::Str(svc.into()), func: Arg::Str(func.into()), args, out: out.map(|s| s.to_string()) }
}

#[derive(Debug)]
enum Expect {
    Value(Value),
    Error(String),
}

impl Property for C24 {
    type Case = C24Case;
    fn id(&self) -> &'static str {
        "C24"
    }
    fn rule(&self) -> String {
        "generated JSON values (depth <= 3, mostly lens-addressable keys) x lens paths of length 1..4 derived by walking the value (existing and missing fields, in-range and out-of-range indices, accessors taken from a scalar holding a string / number / negative / float / huge / non-scalar value) or the `.length` functor, applied to a scalar, to a canonical stream built from the array's elements, and to a canonical map built from an object's entries. Each case is executed through execute_air on one peer (value and accessor come from services, the selected value is observed as the argument of a probe call). Oracle: plain serde_json navigation: possible => the probe receives exactly the navigated value; impossible => a run ends with a catchable error (10000..19999) and the probe is never requested. Non-trivial = path of length >= 2 that contains a scalar accessor, or a successful selection at depth >= 2; distinct by (value, path) hash".into()
    }
    fn assumptions(&self) -> Vec<String> {
        vec!["canonical map: the first accessor selects the group of values appended under that key (all of them, in append order); a missing key selects the empty group".into()]
    }
    fn bounds(&self, tier: Tier) -> Value {
        json!({"value_depth": 3, "path_len": "1..4", "modes": "scalar, canon stream, canon map"})
    }
    fn cases(&self, tier: Tier) -> u32 {
        tier.pick(600_000, 8_000_000)
    }
    fn strategy(&self, _tier: Tier) -> BoxedStrategy<C24Case> {
        (lens_value_strategy(3), proptest::collection::vec(any::<[u16; 2]>(), 1..5), any::<[u16; 2]>(), prop_oneof![3 => Just(0u8), 2 => Just(1u8), 1 => Just(2u8)], proptest::bool::weighted(0.08))
            .prop_map(|(value, path, accessor, mode, length)| C24Case { value, path, accessor, mode, length })
            .boxed()
    }
    fn required_classes(&self) -> Vec<&'static str> {
        vec!["ok:scalar", "ok:canon_stream", "ok:canon_map", "err:scalar", "err:canon_stream", "scalar_accessor_ok", "scalar_accessor_bad_type", "length_ok", "depth_ge_2_ok"]
    }
    fn check(&self, case: &C24Case, _tier: Tier) -> CaseResult {
        let mut rep = CaseReport::default();
        let peers = crate::gen::peers_for(1);
        // effective mode: canon stream needs an array, canon map an object with addressable keys
        let mode = match (case.mode, &case.value) {
            (1, Value::Array(_)) => 1,
            // `.length` of a canonical map is not a JSON notion (entries vs distinct keys): not judged
            (2, Value::Object(o)) if o.keys().all(|k| !k.is_empty()) && !case.length => 2,
            _ => 0,
        };
        let (steps, accessor) = derive_path(&case.value, &case.path, case.accessor);
        let uses_scalar = steps.iter().any(|s| matches!(s, LensStep::ByScalar(_)));
        let mut services: BTreeMap<String, Ret> = BTreeMap::new();
        services.insert("val".into(), Ret::Const(case.value.clone()));
        services.insert("acc".into(), Ret::Const(accessor.clone()));
        let (var, prefix): (String, Vec<I>) = match mode {
            0 => ("x".into(), vec![call("v", "val", vec![], Some("x"))]),
            1 => {
                // canon stream from the array's elements, in order
                let fill = I::Fold { iterable: Arg::var("x"), iter: "i".into(), body: Box::new(I::seq(I::Ap { src: Arg::var("i"), dst: "$s".into() }, I::Next("i".into()))), last: None };
                ("#can".into(), vec![call("v", "val", vec![], Some("x")), fill, I::Canon { peer: me(), src: "$s".into(), dst: "#can".into() }])
            }
            _ => {
                // canon map from the object's entries; every key twice when the value is an array
                let mut v = vec![call("v", "val", vec![], Some("x"))];
                if let Value::Object(o) = &case.value {
                    for (k, val) in o {
                        if addressable(k) {
                            v.push(I::ApMap { key: Arg::Str(k.clone()), val: Arg::Var { name: "x".into(), lens: vec![LensStep::Field(k.clone())], length: false }, map: "%m".into() });
                            if val.is_array() {
                                v.push(I::ApMap { key: Arg::Str(k.clone()), val: Arg::Str("second".into()), map: "%m".into() });
                            }
                        }
                    }
                }
                v.push(I::Canon { peer: me(), src: "%m".into(), dst: "#%cm".into() });
                ("#%cm".into(), v)
            }
        };
        let arg = if case.length { Arg::Var { name: var.clone(), lens: vec![], length: true } } else { Arg::Var { name: var.clone(), lens: steps.clone(), length: false } };
        let mut instrs = prefix;
        if uses_scalar && !case.length {
            instrs.push(call("v", "acc", vec![], Some("k")));
        }
        instrs.push(call("probe", "p", vec![arg.clone()], None));
        let instr = I::seq_all(instrs);
        let text = print(&instr);
        // ---- oracle by plain JSON navigation
        let model_root: Value = match mode {
            0 => case.value.clone(),
            1 => case.value.clone(),
            _ => {
                let mut m = Map::new();
                if let Value::Object(o) = &case.value {
                    for (k, val) in o {
                        if addressable(k) {
                            let mut group = vec![val.clone()];
                            if val.is_array() {
                                group.push(json!("second"));
                            }
                            m.insert(k.clone(), Value::Array(group));
                        }
                    }
                }
                Value::Object(m)
            }
        };
        let env = |n: &str| if n == "k" { Some(accessor.clone()) } else { None };
        let expect = if case.length {
            match (&model_root, mode) {
                (Value::Array(a), _) => Expect::Value(json!(a.len())),
                (Value::Object(o), 2) => Expect::Value(json!(o.len())),
                _ => Expect::Error("length of a non-array".into()),
            }
        } else {
            let mut cur = model_root.clone();
            let mut res: Result<(), String> = Ok(());
            for (k, st) in steps.iter().enumerate() {
                // canonical containers: the first accessor has its own typing rules
                if k == 0 && mode == 1 {
                    match st {
                        LensStep::Field(_) => {
                            res = Err("field accessor applied to a canon stream".into());
                            break;
                        }
                        LensStep::ByScalar(_) if !accessor.is_number() => {
                            res = Err("canon stream accessor is not a number".into());
                            break;
                        }
                        _ => {}
                    }
                }
                if k == 0 && mode == 2 {
                    // map key: string or integer; a missing key selects the empty group
                    // map keys are typed: a string key is selected by a field name or a string accessor
                    // only; integer accessors select integer keys (this scenario inserts string keys only,
                    // so they select the empty group)
                    let key: Option<String> = match st {
                        LensStep::Field(f) => Some(f.clone()),
                        LensStep::Idx(i) => Some(format!("<int {}>", i)),
                        LensStep::ByScalar(_) => match &accessor {
                            Value::String(s) => Some(s.clone()),
                            Value::Number(n) if n.is_i64() || n.is_u64() => Some(format!("<int {}>", n)),
                            _ => None,
                        },
                    };
                    match key {
                        None => {
                            res = Err("map accessor has an invalid type".into());
                            break;
                        }
                        Some(k) => {
                            cur = cur.get(&k).cloned().unwrap_or(json!([]));
                            continue;
                        }
                    }
                }
                match navigate(&cur, st, &env) {
                    Ok(v) => cur = v,
                    Err(e) => {
                        res = Err(e);
                        break;
                    }
                }
            }
            match res {
                Ok(()) => Expect::Value(cur),
                Err(e) => Expect::Error(e),
            }
        };
        // ---- run on one peer
        let script = crate::gen::Script { instr: instr.clone(), text: text.clone(), peers: peers.clone(), services, feat: Default::default() };
        if air_parser::parse(&text).is_err() {
            return CaseResult::Discard("parser rejects the lens script".into());
        }
        let mut sim = crate::sim::Sim::new(&script);
        sim.drain();
        rep.evals = sim.log.len() as u64;
        let mut probe: Option<Value> = None;
        let mut final_code = 0;
        let mut msg = String::new();
        for r in &sim.log {
            if let Ok(reqs) = &r.out.requests {
                for q in reqs.values() {
                    if q.function == "p" {
                        probe = Some(q.args.first().cloned().unwrap_or(Value::Null));
                    }
                }
            }
            if r.out.ret_code != 0 {
                final_code = r.out.ret_code;
                msg = r.out.error_message.clone();
            }
        }
        let mode_name = ["scalar", "canon_stream", "canon_map"][mode as usize];
        let detail = json!({"script": text, "value": case.value, "accessor": accessor, "expected": format!("{:?}", expect), "probe": probe, "ret_code": final_code, "message": msg});
        match &expect {
            Expect::Value(v) => {
                match &probe {
                    Some(p) if p == v && final_code == 0 => {}
                    Some(p) if final_code == 0 => {
                        return CaseResult::Violation(Violation { signature: format!("C24:wrong-selection:{}", mode_name), message: format!("lens {} selected {} but plain navigation gives {}", arg, p, v), detail }, rep)
                    }
                    _ => {
                        return CaseResult::Violation(Violation { signature: format!("C24:fails-on-navigable:{}", mode_name), message: format!("lens {} is navigable (gives {}) but the run ended with {}: {}", arg, v, final_code, msg), detail }, rep)
                    }
                }
                rep.classes.push(format!("ok:{}", mode_name));
                if uses_scalar && !case.length {
                    rep.classes.push("scalar_accessor_ok".into());
                }
                if case.length {
                    rep.classes.push("length_ok".into());
                }
                if steps.len() >= 2 && !case.length {
                    rep.classes.push("depth_ge_2_ok".into());
                    rep.nontrivial.push(fnv(format!("{}{}", case.value, arg).as_bytes()));
                }
            }
            Expect::Error(e) => {
                if probe.is_some() {
                    return CaseResult::Violation(Violation { signature: format!("C24:selects-on-unnavigable:{}", mode_name), message: format!("lens {} cannot be navigated ({}) but the probe received {}", arg, e, probe.clone().unwrap()), detail }, rep);
                }
                if !(10000..20000).contains(&final_code) {
                    return CaseResult::Violation(Violation { signature: format!("C24:not-a-catchable-error:{}", mode_name), message: format!("lens {} cannot be navigated ({}) but the run ended with code {}: {}", arg, e, final_code, msg), detail }, rep);
                }
                rep.classes.push(format!("err:{}", mode_name));
                if e.contains("accessor") {
                    rep.classes.push("scalar_accessor_bad_type".into());
                }
                if uses_scalar && steps.len() >= 2 {
                    rep.nontrivial.push(fnv(format!("{}{}", case.value, arg).as_bytes()));
                }
            }
        }
        rep.sample = Some(json!({"script": text, "value": case.value, "accessor": accessor, "expected": format!("{:?}", expect)}));
        CaseResult::Ok(rep)
    }
}

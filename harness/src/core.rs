//! Thin, public-API-only wrapper around `air::execute_air`: keys, run parameters,
//! outcome decoding.  Everything the monitors look at goes through here.

use air_interpreter_data::{InterpreterData, InterpreterDataEnvelope, Versions};
use air_interpreter_interface::{
    CallArgumentsRepr, CallRequestsRepr, CallResults, CallResultsRepr, CallServiceResult,
    InterpreterOutcome, RunParameters, SerializedCallRequests, TetrapletsRepr,
};
use air_interpreter_sede::{FromSerialized, ToSerialized};
use polyplets::SecurityTetraplet;
use serde_json::Value;
use sha2::{Digest, Sha256};
use std::collections::BTreeMap;

#[derive(Clone)]
pub struct PeerKey {
    pub name: String,
    pub id: String,
    pub secret: Vec<u8>,
    pub kp: fluence_keypair::KeyPair,
}

impl std::fmt::Debug for PeerKey {
    fn fmt(&self, f: &mut std::fmt::Formatter<'_>) -> std::fmt::Result {
        write!(f, "PeerKey({}={})", self.name, self.id)
    }
}

/// Deterministic Ed25519 key from a name (secret = sha256("aquaverif:" + name)).
pub fn peer_key(name: &str) -> PeerKey {
    let mut h = Sha256::new();
    h.update(b"aquaverif:");
    h.update(name.as_bytes());
    let secret: Vec<u8> = h.finalize().to_vec();
    let kp = fluence_keypair::KeyPair::from_secret_key(secret.clone(), fluence_keypair::KeyFormat::Ed25519)
        .expect("ed25519 secret of 32 bytes");
    let id = kp.public().to_peer_id().to_string();
    PeerKey { name: name.to_string(), id, secret, kp }
}

#[derive(Clone, Debug)]
pub struct Particle {
    pub script: String,
    pub init_peer_id: String,
    pub particle_id: String,
    pub timestamp: u64,
    pub ttl: u32,
}

#[derive(Clone, Debug)]
pub struct Limits {
    pub air: u64,
    pub particle: u64,
    pub call_result: u64,
    pub hard: bool,
}

impl Default for Limits {
    fn default() -> Self {
        Limits { air: u64::MAX, particle: u64::MAX, call_result: u64::MAX, hard: false }
    }
}

/// A service answer handed back by the host: (ret_code, raw result string).
pub type HostResult = (i32, String);

#[derive(Clone, Debug, PartialEq)]
pub struct Request {
    pub service: String,
    pub function: String,
    pub args: Vec<Value>,
    pub tetraplets: Vec<Vec<SecurityTetraplet>>,
}

#[derive(Clone, Debug)]
pub struct Outcome {
    pub ret_code: i64,
    pub error_message: String,
    pub data: Vec<u8>,
    /// sorted (the interpreter returns them in hash order)
    pub next_peers: Vec<String>,
    /// as returned, before sorting (for duplicate checks)
    pub next_peers_raw: Vec<String>,
    /// `Err` when the request map does not decode
    pub requests: Result<BTreeMap<u32, Request>, String>,
    pub raw_requests: Vec<u8>,
    pub flags: (bool, bool, bool),
}

pub fn run_params(p: &Particle, peer: &PeerKey, lim: &Limits) -> RunParameters {
    RunParameters {
        init_peer_id: p.init_peer_id.clone(),
        current_peer_id: peer.id.clone(),
        timestamp: p.timestamp,
        ttl: p.ttl,
        key_format: fluence_keypair::KeyFormat::Ed25519.into(),
        secret_key_bytes: peer.secret.clone(),
        particle_id: p.particle_id.clone(),
        air_size_limit: lim.air,
        particle_size_limit: lim.particle,
        call_result_size_limit: lim.call_result,
        hard_limit_enabled: lim.hard,
    }
}

pub fn encode_results(results: &BTreeMap<u32, HostResult>) -> Vec<u8> {
    let mut m: CallResults = CallResults::new();
    for (k, (rc, s)) in results {
        m.insert(k.to_string(), CallServiceResult { ret_code: *rc, result: s.clone() });
    }
    let ser = CallResultsRepr.serialize(&m).expect("call results serialize");
    ser.into()
}

pub fn decode_requests(raw: &[u8]) -> Result<BTreeMap<u32, Request>, String> {
    let ser: SerializedCallRequests = raw.to_vec().into();
    let reqs: air_interpreter_interface::CallRequests =
        CallRequestsRepr.deserialize(&ser).map_err(|e| format!("call requests: {e}"))?;
    let mut out = BTreeMap::new();
    for (id, r) in reqs {
        let args: Vec<Value> =
            CallArgumentsRepr.deserialize(&r.arguments).map_err(|e| format!("args of {id}: {e}"))?;
        let tetraplets: Vec<Vec<SecurityTetraplet>> =
            TetrapletsRepr.deserialize(&r.tetraplets).map_err(|e| format!("tetraplets of {id}: {e}"))?;
        out.insert(id, Request { service: r.service_id, function: r.function_name, args, tetraplets });
    }
    Ok(out)
}

pub fn wrap_outcome(o: InterpreterOutcome) -> Outcome {
    let mut next = o.next_peer_pks.clone();
    next.sort();
    Outcome {
        ret_code: o.ret_code,
        error_message: o.error_message,
        data: o.data,
        next_peers: next,
        next_peers_raw: o.next_peer_pks,
        requests: decode_requests(&o.call_requests),
        raw_requests: o.call_requests,
        flags: (o.air_size_limit_exceeded, o.particle_size_limit_exceeded, o.call_result_size_limit_exceeded),
    }
}

/// One interpreter run with raw byte-level inputs.
pub fn run_raw(air: &str, prev: &[u8], cur: &[u8], params: RunParameters, call_results: Vec<u8>) -> Outcome {
    let o = air::execute_air(air.to_string(), prev.to_vec(), cur.to_vec(), params, call_results.into());
    wrap_outcome(o)
}

pub fn run(
    p: &Particle,
    peer: &PeerKey,
    prev: &[u8],
    cur: &[u8],
    results: &BTreeMap<u32, HostResult>,
    lim: &Limits,
) -> Outcome {
    run_raw(&p.script, prev, cur, run_params(p, peer, lim), encode_results(results))
}

#[derive(Clone, Debug)]
pub struct Decoded {
    pub versions: Versions,
    pub data: InterpreterData,
}

/// Decode an encoded data blob (envelope + rkyv payload). Empty bytes = empty data.
pub fn decode_data(bytes: &[u8]) -> Result<Decoded, String> {
    if bytes.is_empty() {
        return Ok(Decoded {
            versions: Versions::new(air::interpreter_version().clone()),
            data: InterpreterData::default(),
        });
    }
    let env = InterpreterDataEnvelope::try_from_slice(bytes).map_err(|e| format!("envelope: {e}"))?;
    let data = InterpreterData::try_from_slice(&env.inner_data).map_err(|e| format!("inner: {e}"))?;
    Ok(Decoded { versions: env.versions.clone(), data })
}

pub fn encode_data(versions: &Versions, data: &InterpreterData) -> Vec<u8> {
    let inner = data.serialize().expect("rkyv serialize");
    let env = InterpreterDataEnvelope { versions: versions.clone(), inner_data: inner.into() };
    env.serialize().expect("envelope serialize")
}

/// Canonical JSON projection of a decoded data (maps become objects sorted by serde_json).
pub fn data_json(d: &InterpreterData) -> Value {
    serde_json::to_value(d).expect("InterpreterData to json")
}

pub fn is_prev_returned(code: i64) -> bool {
    (1..=9999).contains(&code) || (20000..=29999).contains(&code)
}

pub fn is_new_data(code: i64) -> bool {
    code == 0 || (10000..=19999).contains(&code) || code == 30000
}

pub fn hex(b: &[u8]) -> String {
    let mut s = String::with_capacity(b.len() * 2);
    for x in b {
        s.push_str(&format!("{:02x}", x));
    }
    s
}

pub fn unhex(s: &str) -> Vec<u8> {
    (0..s.len() / 2).map(|i| u8::from_str_radix(&s[2 * i..2 * i + 2], 16).unwrap_or(0)).collect()
}

pub fn fnv(b: &[u8]) -> u64 {
    let mut h: u64 = 0xcbf29ce484222325;
    for x in b {
        h ^= *x as u64;
        h = h.wrapping_mul(0x100000001b3);
    }
    h
}

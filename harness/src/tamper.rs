//! Attacker model (DESIGN §3.6): a participant M with its own key mutates decoded data,
//! repairs CID consistency as far as it can, and re-signs only its own result set.

use crate::core::*;
use crate::gen::pick;
use crate::model::cid::cid_of;
use crate::model::data::*;
use air_interpreter_data::InterpreterData;
use serde_json::{json, Value};

pub const BOUNDARY_U32: [u64; 12] = [0, 1, 2, 3, 7, 255, 65535, 0x7fff_ffff, 0x8000_0000, 0xCAFE_BABE, 0xffff_fff0, 0xffff_ffff];

#[derive(Clone, Debug, Default)]
pub struct TamperReport {
    pub labels: Vec<String>,
    /// the mutated data still deserialises and is CID-consistent (closure check passes)
    pub consistent: bool,
    /// something attributed to a peer other than the attacker was changed
    pub touched_foreign: bool,
}

fn trace_mut(j: &mut Value) -> &mut Vec<Value> {
    j["trace"].as_array_mut().expect("trace array")
}

fn positions(j: &Value, pred: &dyn Fn(&Value) -> bool) -> Vec<usize> {
    j["trace"].as_array().map(|a| a.iter().enumerate().filter(|(_, s)| pred(s)).map(|(i, _)| i).collect()).unwrap_or_default()
}

fn b(c: u16) -> u64 {
    BOUNDARY_U32[pick(c, BOUNDARY_U32.len())]
}

/// peer id a state's result is attributed to (via stores), if any
fn state_owner(j: &Value, st: &Value) -> Option<String> {
    let ci = &j["cid_info"];
    let agg = if let Some(c) = st["call"]["executed"]["scalar"].as_str() {
        Some(c.to_string())
    } else if let Some(c) = st["call"]["executed"]["stream"]["cid"].as_str() {
        Some(c.to_string())
    } else if let Some(c) = st["call"]["failed"].as_str() {
        Some(c.to_string())
    } else {
        None
    };
    if let Some(a) = agg {
        let t = ci["service_result_store"][&a]["tetraplet_cid"].as_str()?;
        return ci["tetraplet_store"][t]["peer_pk"].as_str().map(|s| s.to_string());
    }
    if let Some(c) = st["canon"]["executed"].as_str() {
        let t = ci["canon_result_store"][c]["tetraplet"].as_str()?;
        return ci["tetraplet_store"][t]["peer_pk"].as_str().map(|s| s.to_string());
    }
    None
}

fn set_state_agg(st: &mut Value, new_cid: &str) {
    if st["call"]["executed"]["scalar"].is_string() {
        st["call"]["executed"]["scalar"] = json!(new_cid);
    } else if st["call"]["executed"]["stream"]["cid"].is_string() {
        st["call"]["executed"]["stream"]["cid"] = json!(new_cid);
    } else if st["call"]["failed"].is_string() {
        st["call"]["failed"] = json!(new_cid);
    }
}

fn state_agg(st: &Value) -> Option<String> {
    st["call"]["executed"]["scalar"]
        .as_str()
        .or(st["call"]["executed"]["stream"]["cid"].as_str())
        .or(st["call"]["failed"].as_str())
        .map(|s| s.to_string())
}

fn tetraplet_text(t: &Value) -> String {
    let js = |v: &Value| serde_json::to_string(v.as_str().unwrap_or("")).unwrap();
    format!("{{\"peer_pk\":{},\"service_id\":{},\"function_name\":{},\"lens\":{}}}", js(&t["peer_pk"]), js(&t["service_id"]), js(&t["function_name"]), js(&t["lens"]))
}

fn agg_text(a: &Value) -> String {
    let js = |v: &Value| serde_json::to_string(v.as_str().unwrap_or("")).unwrap();
    format!("{{\"value_cid\":{},\"argument_hash\":{},\"tetraplet_cid\":{}}}", js(&a["value_cid"]), js(&a["argument_hash"]), js(&a["tetraplet_cid"]))
}

/// insert a new service-result aggregate (value raw text, tetraplet json, arg hash) with
/// correct CIDs into the stores; returns the aggregate CID
fn insert_result(j: &mut Value, raw: &str, tetraplet: &Value, arg_hash: &str) -> String {
    let vcid = cid_of(raw.as_bytes());
    j["cid_info"]["value_store"][&vcid] = json!(raw);
    let tcid = cid_of(tetraplet_text(tetraplet).as_bytes());
    j["cid_info"]["tetraplet_store"][&tcid] = tetraplet.clone();
    let agg = json!({"value_cid": vcid, "argument_hash": arg_hash, "tetraplet_cid": tcid});
    let acid = cid_of(agg_text(&agg).as_bytes());
    j["cid_info"]["service_result_store"][&acid] = agg;
    acid
}

/// apply one operation; returns a label or None when not applicable
fn apply_op(j: &mut Value, op: [u16; 4], attacker: &PeerKey, rep: &mut TamperReport) -> Option<String> {
    let n = j["trace"].as_array()?.len();
    let kind = pick(op[0], 26);
    match kind {
        // ---------------- structural (no CID involved)
        0 | 1 => {
            let ps = positions(j, &|s| s.get("par").is_some());
            if ps.is_empty() {
                return None;
            }
            let i = ps[pick(op[1], ps.len())];
            let side = (op[2] % 2) as usize;
            let v = match op[3] % 4 {
                0 => b(op[2]),
                1 => n as u64,
                2 => (n as u64).saturating_sub(i as u64),
                _ => j["trace"][i]["par"][side].as_u64().unwrap_or(0).wrapping_add(1),
            };
            trace_mut(j)[i]["par"][side] = json!(v & 0xffff_ffff);
            Some(format!("par-size[{}].{}={}", i, side, v & 0xffff_ffff))
        }
        2 | 3 | 4 => {
            let ps = positions(j, &|s| s["fold"]["lore"].as_array().map(|a| !a.is_empty()).unwrap_or(false));
            if ps.is_empty() {
                return None;
            }
            let i = ps[pick(op[1], ps.len())];
            let ln = j["trace"][i]["fold"]["lore"].as_array()?.len();
            let e = pick(op[2], ln);
            let lore = &mut trace_mut(j)[i]["fold"]["lore"];
            // an earlier operation of the same case may have removed a descriptor
            let descs = lore[e]["desc"].as_array().map(|a| a.len()).unwrap_or(0);
            if descs < 2 && !matches!(op[3] % 8, 0 | 6) {
                return None;
            }
            match op[3] % 8 {
                0 => {
                    lore[e]["pos"] = json!(b(op[2]));
                    Some(format!("fold[{}].lore[{}].value_pos=boundary", i, e))
                }
                1 => {
                    lore[e]["desc"][0]["pos"] = json!(b(op[2]));
                    Some(format!("fold[{}].lore[{}].before.pos=boundary", i, e))
                }
                2 => {
                    lore[e]["desc"][0]["len"] = json!(b(op[2]));
                    Some(format!("fold[{}].lore[{}].before.len=boundary", i, e))
                }
                3 => {
                    lore[e]["desc"][1]["len"] = json!(b(op[2]));
                    Some(format!("fold[{}].lore[{}].after.len=boundary", i, e))
                }
                4 => {
                    lore[e]["desc"].as_array_mut()?.pop();
                    Some(format!("fold[{}].lore[{}] one descriptor", i, e))
                }
                5 => {
                    let d = lore[e]["desc"][0].clone();
                    lore[e]["desc"].as_array_mut()?.push(d);
                    Some(format!("fold[{}].lore[{}] three descriptors", i, e))
                }
                6 => {
                    let d = lore[e].clone();
                    lore.as_array_mut()?.push(d);
                    Some(format!("fold[{}] duplicate lore entry", i))
                }
                _ => {
                    lore[e]["desc"][1]["pos"] = json!(b(op[2]));
                    Some(format!("fold[{}].lore[{}].after.pos=boundary", i, e))
                }
            }
        }
        5 | 6 => {
            let ps = positions(j, &|s| s["call"]["executed"]["stream"].is_object());
            if ps.is_empty() {
                return None;
            }
            let i = ps[pick(op[1], ps.len())];
            let v = if op[3] % 3 == 0 { (n as u64) + (op[2] % 3) as u64 } else { b(op[2]) };
            trace_mut(j)[i]["call"]["executed"]["stream"]["generation"] = json!(v);
            Some(format!("stream-generation[{}]={}", i, v))
        }
        7 => {
            let ps = positions(j, &|s| s.get("ap").is_some());
            if ps.is_empty() {
                return None;
            }
            let i = ps[pick(op[1], ps.len())];
            let gens = match op[3] % 4 {
                0 => json!([]),
                1 => json!([0, 1]),
                2 => json!([b(op[2])]),
                _ => json!([b(op[2]), b(op[3])]),
            };
            trace_mut(j)[i]["ap"]["gens"] = gens.clone();
            Some(format!("ap-gens[{}]={}", i, gens))
        }
        8 => {
            j["lcid"] = json!(b(op[1]));
            Some("lcid=boundary".into())
        }
        9 | 10 => {
            // state kind change / delete / duplicate / swap
            if n == 0 {
                return None;
            }
            let i = pick(op[1], n);
            let owner = state_owner(j, &j["trace"][i].clone());
            if owner.as_deref().map(|o| o != attacker.id).unwrap_or(false) {
                rep.touched_foreign = true;
            }
            match op[3] % 7 {
                0 => {
                    trace_mut(j).remove(i);
                    Some(format!("delete-state[{}]", i))
                }
                1 => {
                    let s = j["trace"][i].clone();
                    trace_mut(j).insert(i, s);
                    Some(format!("duplicate-state[{}]", i))
                }
                2 => {
                    let k = pick(op[2], n);
                    trace_mut(j).swap(i, k);
                    Some(format!("swap-states[{},{}]", i, k))
                }
                3 => {
                    trace_mut(j)[i] = json!({"par": [b(op[2]) % 5, b(op[3]) % 5]});
                    Some(format!("state[{}]->par", i))
                }
                4 => {
                    trace_mut(j)[i] = json!({"ap": {"gens": [op[2] % 3]}});
                    Some(format!("state[{}]->ap", i))
                }
                5 => {
                    trace_mut(j)[i] = json!({"fold": {"lore": [{"pos": op[2] as usize % (n + 1), "desc": [{"pos": i + 1, "len": op[3] % 3}, {"pos": i + 1, "len": 0}]}]}});
                    Some(format!("state[{}]->fold", i))
                }
                _ => {
                    trace_mut(j)[i] = json!({"canon": {"sent_by": attacker.id}});
                    Some(format!("state[{}]->canon-sent", i))
                }
            }
        }
        // ---------------- value level on some peer's result
        11 | 12 | 13 | 14 => {
            let ps = positions(j, &|s| state_agg(s).is_some());
            if ps.is_empty() {
                return None;
            }
            let i = ps[pick(op[1], ps.len())];
            let st = j["trace"][i].clone();
            let acid = state_agg(&st)?;
            let agg = j["cid_info"]["service_result_store"][&acid].clone();
            if !agg.is_object() {
                return None;
            }
            let tet = j["cid_info"]["tetraplet_store"][agg["tetraplet_cid"].as_str()?].clone();
            let raw_old = j["cid_info"]["value_store"][agg["value_cid"].as_str()?].as_str().unwrap_or("").to_string();
            let foreign = tet["peer_pk"].as_str() != Some(attacker.id.as_str());
            if foreign {
                rep.touched_foreign = true;
            }
            let (raw, tet2, ah, label) = match op[3] % 8 {
                0 => (format!("\"tampered-{}\"", op[2]), tet.clone(), agg["argument_hash"].as_str()?.to_string(), "value-swap"),
                1 => ("not json at all {".to_string(), tet.clone(), agg["argument_hash"].as_str()?.to_string(), "value-non-json"),
                2 => {
                    let mut t = tet.clone();
                    t["function_name"] = json!("other_function");
                    (raw_old.clone(), t, agg["argument_hash"].as_str()?.to_string(), "tetraplet-function-change")
                }
                3 => {
                    let mut t = tet.clone();
                    t["peer_pk"] = json!(attacker.id);
                    (raw_old.clone(), t, agg["argument_hash"].as_str()?.to_string(), "tetraplet-peer-to-attacker")
                }
                4 => (raw_old.clone(), tet.clone(), cid_of(format!("[{}]", op[2]).as_bytes()), "argument-hash-change"),
                5 => ("{\"ret_code\":\"x\",\"message\":7}".to_string(), tet.clone(), agg["argument_hash"].as_str()?.to_string(), "value-malformed-failure-object"),
                6 => (format!("[{}]", "[".repeat(40) + &"]".repeat(40)), tet.clone(), agg["argument_hash"].as_str()?.to_string(), "value-deep-nesting"),
                _ => {
                    let mut t = tet.clone();
                    t["lens"] = json!(".$.injected");
                    (raw_old.clone(), t, agg["argument_hash"].as_str()?.to_string(), "tetraplet-lens-change")
                }
            };
            let new_acid = insert_result(j, &raw, &tet2, &ah);
            set_state_agg(&mut trace_mut(j)[i], &new_acid);
            Some(format!("{}[{}]{}", label, i, if foreign { " (foreign)" } else { "" }))
        }
        15 => {
            // CID rewrite without consistent store: point the state to a CID that is not stored
            let ps = positions(j, &|s| state_agg(s).is_some() || s["canon"]["executed"].is_string());
            if ps.is_empty() {
                return None;
            }
            let i = ps[pick(op[1], ps.len())];
            let fake = cid_of(format!("fake{}", op[2]).as_bytes());
            let st = &mut trace_mut(j)[i];
            if st["canon"]["executed"].is_string() {
                st["canon"]["executed"] = json!(fake);
            } else {
                set_state_agg(st, &fake);
            }
            rep.touched_foreign = true;
            Some(format!("dangling-trace-cid[{}]", i))
        }
        16 | 17 => {
            // remove a store entry
            let stores = ["value_store", "tetraplet_store", "service_result_store", "canon_element_store", "canon_result_store"];
            let s = stores[pick(op[1], stores.len())];
            let keys: Vec<String> = j["cid_info"][s].as_object()?.keys().cloned().collect();
            if keys.is_empty() {
                return None;
            }
            let k = keys[pick(op[2], keys.len())].clone();
            rep.touched_foreign = true;
            if op[3] % 3 == 2 {
                // keep the key, rewrite the content: the entry no longer hashes to its CID
                let before = j["cid_info"][s][&k].clone();
                let entry = &mut j["cid_info"][s][&k];
                match s {
                    "value_store" => *entry = json!(format!("\"rewritten-{}\"", op[2])),
                    "tetraplet_store" => entry["function_name"] = json!("rewritten_function"),
                    "service_result_store" => entry["argument_hash"] = json!(cid_of(b"rewritten")),
                    "canon_element_store" => entry["provenance"] = json!({"type": "literal"}),
                    _ => {
                        if let Some(a) = entry["values"].as_array_mut() {
                            a.pop();
                        }
                    }
                }
                if j["cid_info"][s][&k] == before {
                    return None; // nothing to rewrite in this entry
                }
                return Some(format!("rewrite-{}-entry-under-same-cid", s));
            }
            j["cid_info"][s].as_object_mut()?.remove(&k);
            Some(format!("remove-{}-entry", s))
        }
        18 => {
            // relocate: swap the results of two call states
            let ps = positions(j, &|s| state_agg(s).is_some());
            if ps.len() < 2 {
                return None;
            }
            let a = ps[pick(op[1], ps.len())];
            let c = ps[pick(op[2], ps.len())];
            if a == c {
                return None;
            }
            trace_mut(j).swap(a, c);
            rep.touched_foreign = true;
            Some(format!("relocate-results[{},{}]", a, c))
        }
        19 => {
            // value kind flip: scalar <-> stream <-> unused
            let ps = positions(j, &|s| s["call"]["executed"].is_object());
            if ps.is_empty() {
                return None;
            }
            let i = ps[pick(op[1], ps.len())];
            let st = j["trace"][i].clone();
            let owner = state_owner(j, &st);
            if owner.as_deref().map(|o| o != attacker.id).unwrap_or(false) {
                rep.touched_foreign = true;
            }
            let cid = state_agg(&st).or(st["call"]["executed"]["unused"].as_str().map(|s| s.to_string()))?;
            let newst = match op[3] % 4 {
                0 => json!({"call": {"executed": {"scalar": cid}}}),
                1 => json!({"call": {"executed": {"stream": {"cid": cid, "generation": op[2] % 4}}}}),
                2 => json!({"call": {"executed": {"unused": cid}}}),
                _ => json!({"call": {"failed": cid}}),
            };
            trace_mut(j)[i] = newst;
            Some(format!("value-kind-flip[{}]", i))
        }
        20 => {
            // canon tampering: drop / duplicate an element, change tetraplet
            let keys: Vec<String> = j["cid_info"]["canon_result_store"].as_object()?.keys().cloned().collect();
            if keys.is_empty() {
                return None;
            }
            let k = keys[pick(op[1], keys.len())].clone();
            let mut cr = j["cid_info"]["canon_result_store"][&k].clone();
            let vals = cr["values"].as_array_mut()?;
            match op[3] % 3 {
                0 if !vals.is_empty() => {
                    vals.pop();
                }
                1 if !vals.is_empty() => {
                    let v = vals[0].clone();
                    vals.push(v);
                }
                _ => {
                    vals.reverse();
                }
            }
            let js = |v: &Value| serde_json::to_string(v.as_str().unwrap_or("")).unwrap();
            let text = format!("{{\"tetraplet\":{},\"values\":[{}]}}", js(&cr["tetraplet"]), cr["values"].as_array()?.iter().map(|v| js(v)).collect::<Vec<_>>().join(","));
            let ncid = cid_of(text.as_bytes());
            j["cid_info"]["canon_result_store"][&ncid] = cr;
            for st in trace_mut(j).iter_mut() {
                if st["canon"]["executed"].as_str() == Some(k.as_str()) {
                    st["canon"]["executed"] = json!(ncid);
                }
            }
            rep.touched_foreign = true;
            Some("canon-values-change".into())
        }
        21 => {
            // signature store tampering
            let keys: Vec<String> = j["signatures"].as_object()?.keys().cloned().collect();
            if keys.is_empty() {
                return None;
            }
            let k = keys[pick(op[1], keys.len())].clone();
            match op[3] % 4 {
                0 => {
                    j["signatures"].as_object_mut()?.remove(&k);
                    Some("signature-removed".into())
                }
                1 if keys.len() >= 2 => {
                    let k2 = keys[pick(op[2], keys.len())].clone();
                    let (a, b2) = (j["signatures"][&k].clone(), j["signatures"][&k2].clone());
                    j["signatures"][&k] = b2;
                    j["signatures"][&k2] = a;
                    Some("signatures-swapped".into())
                }
                2 => {
                    // foreign key type: secp256k1-looking / rsa-looking protobuf prefix
                    let mut raw = bs58::decode(&k).into_vec().ok()?;
                    if !raw.is_empty() {
                        raw[0] = raw[0].wrapping_add(1 + (op[2] % 3) as u8);
                    }
                    let v = j["signatures"].as_object_mut()?.remove(&k)?;
                    j["signatures"][bs58::encode(raw).into_string()] = v;
                    Some("signature-key-type-changed".into())
                }
                _ => {
                    j["signatures"][&k] = json!(bs58::encode(vec![op[2] as u8; 64]).into_string());
                    Some("signature-garbage".into())
                }
            }
        }
        22 => {
            // unused value cid garbage / non-cid strings in cid positions
            let ps = positions(j, &|s| state_agg(s).is_some());
            if ps.is_empty() {
                return None;
            }
            let i = ps[pick(op[1], ps.len())];
            let garbage = ["", "z", "bafy", "not-a-cid", "bagaaihra", "Qm"][pick(op[2], 6)];
            set_state_agg(&mut trace_mut(j)[i], garbage);
            rep.touched_foreign = true;
            Some(format!("garbage-cid-text[{}]", i))
        }
        23 => {
            // sender fields
            let ps = positions(j, &|s| s["call"]["sent_by"].is_object() || s["call"]["sent_by"].is_string());
            if ps.is_empty() {
                return None;
            }
            let i = ps[pick(op[1], ps.len())];
            trace_mut(j)[i]["call"]["sent_by"] = match op[3] % 3 {
                0 => json!({"PeerIdWithCallId": {"peer_id": attacker.id, "call_id": b(op[2])}}),
                1 => json!({"PeerId": ""}),
                _ => json!({"PeerIdWithCallId": {"peer_id": "", "call_id": 0}}),
            };
            Some(format!("sender-change[{}]", i))
        }
        _ => {
            // append attacker-made states at the end
            let st = match op[3] % 3 {
                0 => json!({"par": [b(op[1]), b(op[2])]}),
                1 => json!({"ap": {"gens": [b(op[1])]}}),
                _ => json!({"fold": {"lore": []}}),
            };
            trace_mut(j).push(st);
            Some("append-state".into())
        }
    }
}

/// public key string as used in the signature store
pub fn pk_b58(k: &PeerKey) -> String {
    bs58::encode(k.kp.public().encode()).into_string()
}

/// re-sign the attacker's own result set in place (typed)
pub fn resign(d: &mut InterpreterData, attacker: &PeerKey, salt: &str) -> bool {
    let by_peer = match cids_by_peer(d) {
        Ok(m) => m,
        Err(_) => return false,
    };
    let cids = by_peer.get(&attacker.id).cloned().unwrap_or_default();
    let msg = signed_message(&cids, salt);
    let sig = match attacker.kp.sign(&msg) {
        Ok(s) => s,
        Err(_) => return false,
    };
    d.signatures.put(air_interpreter_signatures::PublicKey::new(attacker.kp.public()), sig.into());
    true
}

/// Apply `ops` to honest encoded data; returns the encoded tampered data (None when the
/// mutated structure no longer deserialises into the typed data).
pub fn tamper(honest: &[u8], attacker: &PeerKey, salt: &str, ops: &[[u16; 4]], do_resign: bool) -> Option<(Vec<u8>, TamperReport)> {
    let dec = decode_data(honest).ok()?;
    let mut j = data_json(&dec.data);
    let mut rep = TamperReport::default();
    for op in ops {
        if let Some(l) = apply_op(&mut j, *op, attacker, &mut rep) {
            rep.labels.push(l);
        }
    }
    if rep.labels.is_empty() {
        return None;
    }
    let mut d: InterpreterData = serde_json::from_value(j).ok()?;
    if do_resign {
        resign(&mut d, attacker, salt);
    }
    rep.consistent = closure_check(&d).is_ok();
    let bytes = encode_data(&dec.versions, &d);
    Some((bytes, rep))
}

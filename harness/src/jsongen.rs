//! JSON value / JSON text generators shared by C24, C25, C26.

use proptest::prelude::*;
use serde_json::{Map, Number, Value};

pub const STR_POOL: [&str; 24] = [
    "", "a", "b", "key", "value", "message", "0", "1", "-1", " ", "a b", "\"", "\\", "/", "\n", "\t", "\u{0}", "\u{7f}", "é", "ß", "𝄞", "\u{2028}", "\u{feff}x", "кл",
];

pub fn string_strategy() -> BoxedStrategy<String> {
    prop_oneof![
        5 => (0..STR_POOL.len()).prop_map(|i| STR_POOL[i].to_string()),
        2 => "[ -~]{0,8}",
        1 => "\\PC{0,5}",
        1 => proptest::collection::vec(any::<char>(), 0..4).prop_map(|v| v.into_iter().collect()),
    ]
    .boxed()
}

pub fn number_strategy() -> BoxedStrategy<Number> {
    let ints: Vec<i64> = vec![0, 1, -1, 2, 7, 42, 255, 256, i32::MAX as i64, i32::MIN as i64, i64::MAX, i64::MIN, i64::MAX - 1, i64::MIN + 1, 1 << 53, (1 << 53) + 1, -(1 << 53) - 1];
    let uints: Vec<u64> = vec![i64::MAX as u64 + 1, u64::MAX, u64::MAX - 1, 1 << 63, (1 << 63) + 1];
    let floats: Vec<f64> = vec![
        0.0, -0.0, 0.5, 1.5, -1.5, 1e16, 1e15, 123456789.125, 1e308, -1e308, f64::MAX, f64::MIN, f64::MIN_POSITIVE, 5e-324, 1e-7, 0.1, 0.2, 0.30000000000000004, 1e21, 1e-5, 9007199254740993.0, 18446744073709551616.0, 1.0, 2.0, -3.0,
        100.0,
    ];
    prop_oneof![
        3 => (0..ints.len()).prop_map(move |i| Number::from(ints[i])),
        2 => (0..uints.len()).prop_map(move |i| Number::from(uints[i])),
        3 => (0..floats.len()).prop_map(move |i| Number::from_f64(floats[i]).unwrap()),
        2 => any::<i64>().prop_map(Number::from),
        1 => any::<u64>().prop_map(Number::from),
        2 => any::<f64>().prop_filter_map("finite", Number::from_f64),
        1 => (-1000i64..1000).prop_map(Number::from),
    ]
    .boxed()
}

pub fn leaf_strategy() -> BoxedStrategy<Value> {
    prop_oneof![
        1 => Just(Value::Null),
        1 => any::<bool>().prop_map(Value::Bool),
        4 => number_strategy().prop_map(Value::Number),
        3 => string_strategy().prop_map(Value::String),
    ]
    .boxed()
}

/// JSON values up to the given depth; collections up to `width` entries
pub fn value_strategy(depth: u32, width: usize) -> BoxedStrategy<Value> {
    leaf_strategy()
        .prop_recursive(depth, 48, width as u32, move |inner| {
            prop_oneof![
                proptest::collection::vec(inner.clone(), 0..=width).prop_map(Value::Array),
                proptest::collection::vec((string_strategy(), inner), 0..=width).prop_map(|kv| {
                    let mut m = Map::new();
                    for (k, v) in kv {
                        m.insert(k, v);
                    }
                    Value::Object(m)
                }),
            ]
        })
        .boxed()
}

/// canonical bytes: compact, object keys sorted by their UTF-8 bytes (= Rust string order),
/// leaves as serde_json prints them (serde_json is the trusted JSON reference for leaves)
pub fn canonical(v: &Value) -> String {
    let mut out = String::new();
    canonical_into(v, &mut out);
    out
}

fn canonical_into(v: &Value, out: &mut String) {
    match v {
        Value::Null | Value::Bool(_) | Value::Number(_) | Value::String(_) => out.push_str(&serde_json::to_string(v).expect("leaf")),
        Value::Array(a) => {
            out.push('[');
            for (i, x) in a.iter().enumerate() {
                if i > 0 {
                    out.push(',');
                }
                canonical_into(x, out);
            }
            out.push(']');
        }
        Value::Object(o) => {
            let mut keys: Vec<&String> = o.keys().collect();
            keys.sort();
            out.push('{');
            for (i, k) in keys.iter().enumerate() {
                if i > 0 {
                    out.push(',');
                }
                out.push_str(&serde_json::to_string(k).expect("key"));
                out.push(':');
                canonical_into(&o[*k], out);
            }
            out.push('}');
        }
    }
}

fn escape_string(s: &str, sel: &mut dyn FnMut() -> u16) -> String {
    let mut out = String::from("\"");
    for ch in s.chars() {
        let must = matches!(ch, '"' | '\\') || (ch as u32) < 0x20;
        let style = sel() % 4;
        if must || style == 0 {
            match ch {
                '"' => out.push_str("\\\""),
                '\\' => out.push_str("\\\\"),
                '\n' if style % 2 == 0 => out.push_str("\\n"),
                '\t' if style % 2 == 0 => out.push_str("\\t"),
                '/' if style == 0 => out.push_str("\\/"),
                c => {
                    let mut buf = [0u16; 2];
                    for u in c.encode_utf16(&mut buf) {
                        if style == 3 {
                            out.push_str(&format!("\\u{:04X}", u));
                        } else {
                            out.push_str(&format!("\\u{:04x}", u));
                        }
                    }
                }
            }
        } else {
            out.push(ch);
        }
    }
    out.push('"');
    out
}

fn number_text(n: &Number, sel: u16) -> String {
    let plain = n.to_string();
    if n.is_i64() || n.is_u64() {
        // an integer has one spelling (any exponent or fraction makes it a float)
        return plain;
    }
    // floats: alternative spellings denoting the same double
    let f = n.as_f64().unwrap_or(0.0);
    match sel % 5 {
        0 => format!("{:e}", f),
        1 => format!("{:E}", f).replace('E', "E+").replace("E+-", "E-"),
        2 if f.fract() == 0.0 && f.abs() < 1e15 => format!("{:.3}", f),
        3 if plain.contains('.') && !plain.contains('e') => format!("{}0", plain),
        _ => plain,
    }
}

/// non-canonical spelling of a value (whitespace, escapes, number spellings, key order as stored)
pub fn noncanonical_text(v: &Value, choices: &[u16]) -> String {
    let mut idx = 0usize;
    let mut sel = || {
        let c = if choices.is_empty() { 0 } else { choices[idx % choices.len()] };
        idx += 1;
        c
    };
    let mut out = String::new();
    fn ws(out: &mut String, c: u16) {
        out.push_str(["", " ", "\n", "\t ", "  "][(c % 5) as usize]);
    }
    fn go(v: &Value, out: &mut String, sel: &mut dyn FnMut() -> u16) {
        ws(out, sel());
        match v {
            Value::Null => out.push_str("null"),
            Value::Bool(b) => out.push_str(if *b { "true" } else { "false" }),
            Value::Number(n) => out.push_str(&number_text(n, sel())),
            Value::String(s) => out.push_str(&escape_string(s, sel)),
            Value::Array(a) => {
                out.push('[');
                for (i, x) in a.iter().enumerate() {
                    if i > 0 {
                        out.push(',');
                    }
                    go(x, out, sel);
                }
                ws(out, sel());
                out.push(']');
            }
            Value::Object(o) => {
                out.push('{');
                let mut entries: Vec<(&String, &Value)> = o.iter().collect();
                if sel() % 2 == 0 {
                    entries.reverse();
                }
                for (i, (k, x)) in entries.iter().enumerate() {
                    if i > 0 {
                        out.push(',');
                    }
                    ws(out, sel());
                    out.push_str(&escape_string(k, sel));
                    ws(out, sel());
                    out.push(':');
                    go(x, out, sel);
                }
                ws(out, sel());
                out.push('}');
            }
        }
        ws(out, sel());
    }
    go(v, &mut out, &mut sel);
    out
}

//! Deterministic single-threaded simulator of the host protocol described in
//! air/README.md ("Interaction with the interpreter").  Uses public API only.

use crate::core::*;
use crate::gen::Script;
use crate::script::{serve, Ret};
use serde_json::Value;
use std::collections::BTreeMap;

#[derive(Clone, Debug, PartialEq, serde::Serialize, serde::Deserialize)]
pub enum Action {
    /// initial run on the init peer (empty prev, empty current)
    Kick,
    /// consume inbox message i of peer p as current data
    Deliver(usize, usize),
    /// deliver again an already delivered message j of peer p
    Redeliver(usize, usize),
    /// hand back results of the pending requests selected by `mask` (bit k = k-th pending id), no current data
    Results(usize, u32),
    /// results and inbox message i in the same call
    ResultsWith(usize, u32, usize),
}

#[derive(Clone, Debug)]
pub struct RunRecord {
    pub step: usize,
    pub action: Action,
    pub peer: usize,
    pub prev: Vec<u8>,
    pub cur: Vec<u8>,
    pub results: BTreeMap<u32, HostResult>,
    /// the requests those results answer
    pub answered: BTreeMap<u32, Request>,
    pub out: Outcome,
}

#[derive(Clone, Debug)]
pub struct PeerState {
    pub key: PeerKey,
    pub prev: Vec<u8>,
    pub pending: BTreeMap<u32, Request>,
    pub inbox: Vec<Vec<u8>>,
    pub delivered: Vec<Vec<u8>>,
    pub issued: Vec<u32>,
    pub redeliveries: usize,
}

pub struct Sim<'a> {
    pub script: &'a Script,
    pub particle: Particle,
    pub peers: Vec<PeerState>,
    pub log: Vec<RunRecord>,
    pub lim: Limits,
    pub dropped_msgs: usize,
    pub steps: usize,
    pub inconclusive: bool,
    pub max_steps: usize,
    /// override of the service function (used by fork/equivocation checks)
    pub service_override: Option<Box<dyn Fn(usize, &Request) -> Option<HostResult> + 'a>>,
}

pub fn particle_for(script: &Script) -> Particle {
    Particle {
        script: script.text.clone(),
        init_peer_id: script.init_peer().id.clone(),
        particle_id: format!("particle-{:x}", fnv(script.text.as_bytes())),
        timestamp: 1_700_000_000_000,
        ttl: 30_000,
    }
}

pub fn host_call(script: &Script, req: &Request) -> HostResult {
    let spec = script.services.get(&req.function).cloned().unwrap_or(Ret::Str);
    serve(&spec, &req.function, &req.args)
}

impl<'a> Sim<'a> {
    pub fn new(script: &'a Script) -> Self {
        let peers = script
            .peers
            .iter()
            .map(|k| PeerState {
                key: k.clone(),
                prev: vec![],
                pending: BTreeMap::new(),
                inbox: vec![],
                delivered: vec![],
                issued: vec![],
                redeliveries: 0,
            })
            .collect();
        Sim {
            script,
            particle: particle_for(script),
            peers,
            log: vec![],
            lim: Limits::default(),
            dropped_msgs: 0,
            steps: 0,
            inconclusive: false,
            max_steps: 300,
            service_override: None,
        }
    }

    pub fn peer_index(&self, id: &str) -> Option<usize> {
        self.peers.iter().position(|p| p.key.id == id)
    }

    pub fn enabled(&self) -> Vec<Action> {
        let mut v = Vec::new();
        if self.log.is_empty() {
            return vec![Action::Kick];
        }
        for (pi, p) in self.peers.iter().enumerate() {
            for i in 0..p.inbox.len().min(3) {
                v.push(Action::Deliver(pi, i));
            }
            let n = p.pending.len().min(16);
            if n > 0 {
                let all = if n >= 32 { u32::MAX } else { (1u32 << n) - 1 };
                v.push(Action::Results(pi, all));
                if n > 1 {
                    v.push(Action::Results(pi, 1));
                    v.push(Action::Results(pi, all & !1));
                }
                if !p.inbox.is_empty() {
                    v.push(Action::ResultsWith(pi, all, 0));
                }
            }
            if !p.delivered.is_empty() && p.redeliveries < 2 {
                v.push(Action::Redeliver(pi, p.delivered.len() - 1));
                if p.delivered.len() > 1 {
                    v.push(Action::Redeliver(pi, 0));
                }
            }
        }
        v
    }

    /// enabled actions without re-deliveries (used for draining / quiescence)
    fn progress_action(&self) -> Option<Action> {
        for (pi, p) in self.peers.iter().enumerate() {
            if !p.pending.is_empty() {
                let n = p.pending.len().min(31);
                return Some(Action::Results(pi, (1u32 << n) - 1));
            }
        }
        for (pi, p) in self.peers.iter().enumerate() {
            if !p.inbox.is_empty() {
                return Some(Action::Deliver(pi, 0));
            }
        }
        None
    }

    pub fn quiescent(&self) -> bool {
        !self.log.is_empty() && self.progress_action().is_none()
    }

    fn take_results(&mut self, pi: usize, mask: u32) -> (BTreeMap<u32, HostResult>, BTreeMap<u32, Request>) {
        let ids: Vec<u32> = self.peers[pi].pending.keys().cloned().collect();
        let mut res = BTreeMap::new();
        let mut answered = BTreeMap::new();
        for (k, id) in ids.iter().enumerate() {
            if k < 32 && (mask >> k) & 1 == 1 {
                let req = self.peers[pi].pending.remove(id).unwrap();
                let r = match &self.service_override {
                    Some(f) => f(pi, &req).unwrap_or_else(|| host_call(self.script, &req)),
                    None => host_call(self.script, &req),
                };
                res.insert(*id, r);
                answered.insert(*id, req);
            }
        }
        (res, answered)
    }

    pub fn step(&mut self, a: Action) -> &RunRecord {
        let (pi, cur, results, answered) = match &a {
            Action::Kick => (0usize, vec![], BTreeMap::new(), BTreeMap::new()),
            Action::Deliver(pi, i) => {
                let m = self.peers[*pi].inbox.remove(*i);
                self.peers[*pi].delivered.push(m.clone());
                (*pi, m, BTreeMap::new(), BTreeMap::new())
            }
            Action::Redeliver(pi, j) => {
                self.peers[*pi].redeliveries += 1;
                let m = self.peers[*pi].delivered[*j].clone();
                (*pi, m, BTreeMap::new(), BTreeMap::new())
            }
            Action::Results(pi, mask) => {
                let (r, an) = self.take_results(*pi, *mask);
                (*pi, vec![], r, an)
            }
            Action::ResultsWith(pi, mask, i) => {
                let (r, an) = self.take_results(*pi, *mask);
                let m = self.peers[*pi].inbox.remove(*i);
                self.peers[*pi].delivered.push(m.clone());
                (*pi, m, r, an)
            }
        };
        let prev = self.peers[pi].prev.clone();
        let out = run(&self.particle, &self.peers[pi].key, &prev, &cur, &results, &self.lim);
        self.apply_outcome(pi, &out);
        self.steps += 1;
        self.log.push(RunRecord { step: self.log.len(), action: a, peer: pi, prev, cur, results, answered, out });
        self.log.last().unwrap()
    }

    /// host bookkeeping after a run
    fn apply_outcome(&mut self, pi: usize, out: &Outcome) {
        if is_prev_returned(out.ret_code) {
            return;
        }
        self.peers[pi].prev = out.data.clone();
        if let Ok(reqs) = &out.requests {
            for (id, r) in reqs {
                self.peers[pi].pending.insert(*id, r.clone());
                self.peers[pi].issued.push(*id);
            }
        }
        for np in &out.next_peers {
            match self.peer_index(np) {
                Some(qi) => self.peers[qi].inbox.push(out.data.clone()),
                None => self.dropped_msgs += 1,
            }
        }
    }

    /// Run a schedule (choice numbers), then drain FIFO to quiescence.
    /// growth guard: recursive streams fed by calls can grow exponentially
    pub fn too_big(&self) -> bool {
        self.peers.iter().any(|p| p.prev.len() > 150_000 || p.pending.len() > 48 || p.inbox.len() > 48)
    }

    pub fn run_schedule(&mut self, sched: &[u16]) {
        for c in sched {
            let en = self.enabled();
            if en.is_empty() || self.steps >= self.max_steps || self.too_big() {
                break;
            }
            let a = en[crate::gen::pick(*c, en.len())].clone();
            self.step(a);
        }
        self.drain();
    }

    pub fn drain(&mut self) {
        if self.log.is_empty() {
            self.step(Action::Kick);
        }
        while let Some(a) = self.progress_action() {
            if self.steps >= self.max_steps || self.too_big() {
                self.inconclusive = true;
                break;
            }
            self.step(a);
        }
    }

    /// replay an explicit action list
    pub fn run_actions(&mut self, actions: &[Action]) {
        for a in actions {
            self.step(a.clone());
        }
    }

    pub fn actions(&self) -> Vec<Action> {
        self.log.iter().map(|r| r.action.clone()).collect()
    }
}

/// An observer: a fresh peer not named in any script; merges data without executing anything.
pub fn observer_key() -> PeerKey {
    peer_key("observer")
}

pub fn observe(script: &Script, particle: &Particle, prev: &[u8], cur: &[u8]) -> Outcome {
    let _ = script;
    run(particle, &observer_key(), prev, cur, &BTreeMap::new(), &Limits::default())
}

pub fn action_json(a: &Action) -> Value {
    match a {
        Action::Kick => serde_json::json!({"a": "kick"}),
        Action::Deliver(p, i) => serde_json::json!({"a": "deliver", "p": p, "i": i}),
        Action::Redeliver(p, i) => serde_json::json!({"a": "redeliver", "p": p, "i": i}),
        Action::Results(p, m) => serde_json::json!({"a": "results", "p": p, "mask": m}),
        Action::ResultsWith(p, m, i) => serde_json::json!({"a": "results_with", "p": p, "mask": m, "i": i}),
    }
}

pub fn action_from_json(v: &Value) -> Option<Action> {
    let p = v.get("p").and_then(|x| x.as_u64()).unwrap_or(0) as usize;
    let i = v.get("i").and_then(|x| x.as_u64()).unwrap_or(0) as usize;
    let m = v.get("mask").and_then(|x| x.as_u64()).unwrap_or(0) as u32;
    Some(match v.get("a")?.as_str()? {
        "kick" => Action::Kick,
        "deliver" => Action::Deliver(p, i),
        "redeliver" => Action::Redeliver(p, i),
        "results" => Action::Results(p, m),
        "results_with" => Action::ResultsWith(p, m, i),
        _ => return None,
    })
}

/// Bounded-exhaustive exploration: all maximal schedules of `script` built from the progress
/// actions (deliver any of the first 3 inbox messages, hand back all / the first / all-but-first
/// pending results, results together with a particle), without re-deliveries.  `visit` is called
/// for every run of every schedule (runs shared by schedules with a common prefix are visited
/// once per prefix re-simulation).  Returns (complete schedules, runs executed, exhausted) --
/// `exhausted` is false when `max_leaves` stopped the enumeration.
pub fn explore_all(script: &Script, max_leaves: usize, max_depth: usize, visit: &mut dyn FnMut(&RunRecord) -> bool) -> (usize, usize, bool) {
    fn progress_actions(sim: &Sim) -> Vec<Action> {
        sim.enabled().into_iter().filter(|a| !matches!(a, Action::Redeliver(..))).collect()
    }
    let mut leaves = 0usize;
    let mut runs = 0usize;
    let mut stack: Vec<Vec<Action>> = vec![vec![Action::Kick]];
    while let Some(prefix) = stack.pop() {
        if leaves >= max_leaves {
            return (leaves, runs, false);
        }
        // re-simulate the prefix
        let mut sim = Sim::new(script);
        let mut ok = true;
        for a in &prefix {
            let r = sim.step(a.clone());
            runs += 1;
            if !visit(r) {
                ok = false;
                break;
            }
        }
        if !ok {
            return (leaves, runs, false);
        }
        let next = progress_actions(&sim);
        if next.is_empty() || prefix.len() >= max_depth || sim.too_big() {
            leaves += 1;
            continue;
        }
        for a in next.into_iter().rev() {
            let mut p = prefix.clone();
            p.push(a);
            stack.push(p);
        }
    }
    (leaves, runs, true)
}

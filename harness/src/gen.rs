//! Script generation by construction: an unconstrained, well-shrinking *skeleton*
//! (a tree of raw choice numbers, produced by proptest) is elaborated deterministically
//! into a well-scoped AIR script plus its service table.  Every variable reference is
//! resolved against the scope environment by a monotone index mapping, so shrinking the
//! numbers towards 0 keeps the script valid.

use crate::core::{peer_key, PeerKey};
use crate::script::*;
use proptest::prelude::*;
use std::collections::BTreeMap;

#[derive(Clone, Debug, serde::Serialize, serde::Deserialize)]
pub struct Leaf {
    pub kind: u16,
    pub peer: u16,
    pub out: u16,
    pub ret: u16,
    pub x: u16,
    pub args: Vec<[u16; 3]>,
}

#[derive(Clone, Debug, serde::Serialize, serde::Deserialize)]
pub enum Sk {
    Leaf(Leaf),
    Seq(Box<Sk>, Box<Sk>),
    Par(Box<Sk>, Box<Sk>),
    Xor(Box<Sk>, Box<Sk>),
    Cond { c: [u16; 4], body: Box<Sk> },
    New { c: u16, body: Box<Sk> },
    Fold { c: [u16; 4], body: Box<Sk>, last: Option<Box<Sk>> },
}

pub fn leaf_strategy() -> impl Strategy<Value = Leaf> {
    (
        any::<u16>(),
        any::<u16>(),
        any::<u16>(),
        any::<u16>(),
        any::<u16>(),
        proptest::collection::vec(any::<[u16; 3]>(), 0..3),
    )
        .prop_map(|(kind, peer, out, ret, x, args)| Leaf { kind, peer, out, ret, x, args })
}

/// `depth`/`size` bound the skeleton (proptest recursion parameters).
pub fn sk_strategy(depth: u32, size: u32) -> impl Strategy<Value = Sk> {
    let leaf = leaf_strategy().prop_map(Sk::Leaf);
    leaf.prop_recursive(depth, size, 2, |inner| {
        prop_oneof![
            5 => (inner.clone(), inner.clone()).prop_map(|(a, b)| Sk::Seq(Box::new(a), Box::new(b))),
            3 => (inner.clone(), inner.clone()).prop_map(|(a, b)| Sk::Par(Box::new(a), Box::new(b))),
            2 => (inner.clone(), inner.clone()).prop_map(|(a, b)| Sk::Xor(Box::new(a), Box::new(b))),
            1 => (any::<[u16; 4]>(), inner.clone()).prop_map(|(c, b)| Sk::Cond { c, body: Box::new(b) }),
            1 => (any::<u16>(), inner.clone()).prop_map(|(c, b)| Sk::New { c, body: Box::new(b) }),
            3 => (any::<[u16; 4]>(), inner.clone(), proptest::option::of(inner.clone()))
                .prop_map(|(c, b, l)| Sk::Fold { c, body: Box::new(b), last: l.map(Box::new) }),
        ]
    })
}

#[derive(Clone, Copy, Debug, PartialEq, Eq)]
pub enum Profile {
    /// C16 fragment: no streams, fallible instructions protected by xor w/o par between
    Frag,
    /// FRAG + streams, maps, canons, stream folds, recursive appends
    Stream,
    /// anything the parser accepts (no protection, %last_error%, shadowing, literals…)
    Any,
}

#[derive(Clone, Debug)]
pub struct GenCfg {
    pub profile: Profile,
    pub n_peers: usize,
    pub max_arr: u8,
    /// allow failing services
    pub failing: bool,
    /// allow services returning non-JSON strings (labelled sub-domain)
    pub non_json: bool,
    /// stream/map folds only in the `(par body (next i))` shape, where every value is
    /// visited in every run (excludes the known-finding class K1 by construction)
    pub stream_fold_par_only: bool,
    /// allow call-paced unbounded recursive appends (known-finding class K2 lives here)
    pub unbounded_rec: bool,
    /// call arguments are literals and enclosing fold iterators only, so that a call that is
    /// reached can always be executed by its target (C19 quiescence sub-domain)
    pub literal_args_only: bool,
}

impl GenCfg {
    pub fn new(profile: Profile) -> Self {
        GenCfg { profile, n_peers: 4, max_arr: 3, failing: true, non_json: false, stream_fold_par_only: false, unbounded_rec: false, literal_args_only: false }
    }
}

#[derive(Clone, Debug, Default, serde::Serialize, serde::Deserialize)]
#[serde(default)]
pub struct Features {
    pub calls: usize,
    pub pars: usize,
    pub xors: usize,
    pub fold_scalar: usize,
    pub fold_stream: usize,
    pub fold_map: usize,
    pub fold_canon: usize,
    pub canons: usize,
    pub news: usize,
    pub recursive: usize,
    pub var_targets: usize,
    pub failing_services: usize,
    pub stream_appends: usize,
    pub map_appends: usize,
    pub new_around_next: usize,
    /// stream/map folds whose `next` is not unconditionally executed (seq / xor / no-next shapes)
    pub seq_stream_fold: usize,
    pub unbounded_rec: usize,
    /// `ap` of a canon inside a fold replaced by a literal (value-doubling scripts, K10 of C01)
    pub growth_excluded: usize,
    /// stream-like folds nested inside a stream-like fold
    pub nested_stream_fold: usize,
    /// streams filled by >= 3 aps in one run (one generation)
    pub same_gen_fill: usize,
    /// `new x` around a re-assignment of an existing scalar x
    pub new_shadowing: usize,
    /// appends to a stream/map made inside the body of a stream-like fold
    pub append_in_stream_fold: usize,
    /// stream maps filled with a key that is written twice, canonicalised and folded over
    pub rewritten_map_key: usize,
    /// ... whose body ends with a catchable error (caught by an xor outside the scope)
    pub new_left_by_error: usize,
}

#[derive(Clone, Debug)]
pub struct Script {
    pub instr: I,
    pub text: String,
    pub peers: Vec<PeerKey>,
    /// function name -> return spec (function names are unique per call instruction)
    pub services: BTreeMap<String, Ret>,
    pub feat: Features,
}

impl Script {
    pub fn init_peer(&self) -> &PeerKey {
        &self.peers[0]
    }
    pub fn peer_by_id(&self, id: &str) -> Option<&PeerKey> {
        self.peers.iter().find(|p| p.id == id)
    }
}

pub fn pick(c: u16, n: usize) -> usize {
    if n == 0 {
        0
    } else {
        (c as usize * n) >> 16
    }
}

#[derive(Clone, Debug, Default)]
struct Env {
    scalars: Vec<(String, Shape)>,
    streams: Vec<(String, Shape)>,
    maps: Vec<(String, Shape)>,
    canons: Vec<(String, Shape)>,
    canon_maps: Vec<(String, Shape)>,
    /// (iterator name, element shape, is stream-like fold, iterable stream name)
    iters: Vec<(String, Shape, bool, Option<String>)>,
}

#[derive(Clone, Copy, Debug)]
struct Ctx {
    /// inside the left branch of an xor with no par in between
    protected: bool,
    /// inside a `new $s` body that contains the fold's `next` (known-finding class)
    depth: usize,
}

struct Elab<'a> {
    cfg: &'a GenCfg,
    peers: Vec<PeerKey>,
    services: BTreeMap<String, Ret>,
    n_fun: usize,
    n_var: usize,
    feat: Features,
}

const PEER_NAMES: [&str; 6] = ["A", "B", "C", "D", "E", "F"];

pub fn peers_for(n: usize) -> Vec<PeerKey> {
    PEER_NAMES.iter().take(n).map(|n| peer_key(n)).collect()
}

pub fn elaborate(sk: &Sk, cfg: &GenCfg) -> Script {
    let mut e = Elab {
        cfg,
        peers: peers_for(cfg.n_peers),
        services: BTreeMap::new(),
        n_fun: 0,
        n_var: 0,
        feat: Features::default(),
    };
    let mut env = Env::default();
    let instr = e.el(sk, &mut env, Ctx { protected: false, depth: 0 });
    let text = print(&instr);
    Script { instr, text, peers: e.peers, services: e.services, feat: e.feat }
}

impl<'a> Elab<'a> {
    fn fresh(&mut self, prefix: &str) -> String {
        self.n_var += 1;
        format!("{}{}", prefix, self.n_var)
    }
    fn fresh_fun(&mut self) -> String {
        self.n_fun += 1;
        format!("f{}", self.n_fun)
    }
    fn streams_ok(&self) -> bool {
        self.cfg.profile != Profile::Frag
    }
    fn peer_lit(&self, c: u16) -> Arg {
        Arg::Str(self.peers[pick(c, self.peers.len())].id.clone())
    }
    fn peer_ids(&self) -> Vec<String> {
        self.peers.iter().map(|p| p.id.clone()).collect()
    }

    /// all (arg, shape) readable values in scope, including lens paths valid for the shape
    fn readable(&self, env: &Env, with_canons: bool) -> Vec<(Arg, Shape)> {
        let mut v = Vec::new();
        let mut add_paths = |name: &str, sh: &Shape, v: &mut Vec<(Arg, Shape)>| {
            v.push((Arg::var(name), sh.clone()));
            for (lens, s2) in lens_paths(sh) {
                v.push((Arg::Var { name: name.to_string(), lens, length: false }, s2));
            }
        };
        for (n, s) in &env.scalars {
            add_paths(n, s, &mut v);
        }
        for (n, s, _, _) in &env.iters {
            add_paths(n, s, &mut v);
        }
        if with_canons {
            for (n, s) in &env.canons {
                v.push((Arg::var(n), Shape::Arr(Box::new(s.clone()))));
                v.push((
                    Arg::Var { name: n.clone(), lens: vec![LensStep::Idx(0)], length: false },
                    s.clone(),
                ));
            }
            for (n, s) in &env.canon_maps {
                v.push((Arg::var(n), Shape::Unknown));
                let _ = s;
            }
        }
        v
    }

    fn literal(&self, c: u16) -> (Arg, Shape) {
        match pick(c, 8) {
            0 | 1 | 2 => (Arg::Str(format!("lit{}", c % 7)), Shape::Str),
            3 => (Arg::Num((c % 5) as i64), Shape::Num),
            4 => (Arg::InitPeer, Shape::Peer),
            5 => {
                if self.cfg.profile == Profile::Any {
                    (Arg::Bool(c % 2 == 0), Shape::Bool)
                } else {
                    (Arg::Num(7), Shape::Num)
                }
            }
            6 => {
                if self.cfg.profile == Profile::Any {
                    (Arg::EmptyArr, Shape::Arr(Box::new(Shape::Unknown)))
                } else {
                    (Arg::Str("k".into()), Shape::Str)
                }
            }
            _ => {
                if self.cfg.profile == Profile::Any {
                    match c % 3 {
                        0 => (Arg::Timestamp, Shape::Num),
                        1 => (Arg::Ttl, Shape::Num),
                        _ => (Arg::Float("1.5".into()), Shape::Num),
                    }
                } else {
                    (Arg::Str("z".into()), Shape::Str)
                }
            }
        }
    }

    fn any_arg(&self, env: &Env, c: [u16; 3]) -> (Arg, Shape) {
        let r = self.readable(env, true);
        // 1/3 literals, 2/3 variables when available
        if r.is_empty() || pick(c[0], 3) == 0 {
            if self.cfg.profile == Profile::Any && pick(c[1], 10) == 0 {
                return match c[2] % 4 {
                    0 => (Arg::LastError(None), Shape::ErrObj),
                    1 => (Arg::LastError(Some(".$.message".into())), Shape::Str),
                    2 => (Arg::Error(None), Shape::ErrObj),
                    _ => (Arg::Error(Some(".$.error_code".into())), Shape::Num),
                };
            }
            return self.literal(c[1]);
        }
        r[pick(c[1], r.len())].clone()
    }

    fn target(&mut self, env: &Env, c: u16, x: u16) -> Arg {
        // 70% literal, 10% init peer, 20% variable of peer shape when available
        let cands: Vec<Arg> =
            self.readable(env, true).into_iter().filter(|(_, s)| *s == Shape::Peer).map(|(a, _)| a).collect();
        match pick(x, 10) {
            0 => Arg::InitPeer,
            1 | 2 if !cands.is_empty() => {
                self.feat.var_targets += 1;
                cands[pick(c, cands.len())].clone()
            }
            _ => self.peer_lit(c),
        }
    }

    fn ret_spec(&self, c: u16, x: u16, protected: bool) -> Ret {
        let n = 1 + (x % self.cfg.max_arr.max(1) as u16) as u8;
        let ids = self.peer_ids();
        let p = ids[pick(x, ids.len())].clone();
        let allow_fail = self.cfg.failing && (protected || self.cfg.profile != Profile::Frag);
        match pick(c, 16) {
            0 | 1 | 2 => Ret::Str,
            3 => Ret::Num,
            4 | 5 => Ret::ArrStr(n),
            6 | 7 => Ret::ArrObj(n, ids),
            8 => Ret::ArrPeer(ids.into_iter().take(n as usize).collect()),
            9 | 10 => Ret::Obj(p),
            11 | 12 => Ret::Peer(p),
            13 => Ret::Echo((x % 3) as u8),
            14 if allow_fail => Ret::Err(1 + (x % 3) as i32, "boom".into()),
            15 if allow_fail && self.cfg.non_json => Ret::NonJson,
            _ => Ret::Str,
        }
    }

    /// streams that may be appended to here: not the iterable of an enclosing stream fold
    /// (unguarded recursive appends would loop until the stream size limit)
    fn appendable(&self, env: &Env) -> Vec<(String, Shape)> {
        env.streams
            .iter()
            .filter(|(n, _)| !env.iters.iter().any(|(_, _, _, src)| src.as_deref() == Some(n.as_str())))
            .cloned()
            .collect()
    }

    /// inside the body of a stream-like fold?
    fn in_stream_fold(&self, env: &Env) -> bool {
        env.iters.iter().any(|(_, _, st, _)| *st)
    }

    /// clean domain: no appends to streams/maps inside stream-like fold bodies (the order of such
    /// appends differs between peers and a later fold over that stream cannot be merged: K8)
    fn appends_allowed(&mut self, env: &Env) -> bool {
        if self.in_stream_fold(env) {
            if self.cfg.stream_fold_par_only {
                return false;
            }
            self.feat.append_in_stream_fold += 1;
        }
        true
    }

    /// Inside a fold, `ap` of a canon (or of anything read from one) into a stream, map or scalar
    /// is how a script doubles a value per iteration: `(fold .. (seq (canon P $s #c) (ap #c $s)) ..)`
    /// needs memory exponential in the number of iterations within one run (known finding K10 of
    /// C01, searched by C01's script-growth mode in an isolated process).  The history checks run
    /// the interpreter in process, so their scripts copy a literal there instead.
    fn no_growth(&mut self, src: Arg, env: &Env) -> Arg {
        match &src {
            Arg::Var { name, .. } if name.starts_with('#') && !env.iters.is_empty() => {
                self.feat.growth_excluded += 1;
                Arg::Str("c".into())
            }
            _ => src,
        }
    }

    fn iter_args(&self, env: &Env) -> Vec<(Arg, Shape)> {
        env.iters.iter().map(|(n, s, _, _)| (Arg::var(n), s.clone())).collect()
    }

    fn call(&mut self, l: &Leaf, env: &mut Env, ctx: Ctx, out_mode: usize) -> I {
        let peer = self.target(env, l.peer, l.x);
        let mut args: Vec<(Arg, Shape)> = if self.cfg.literal_args_only { l.args.iter().map(|c| self.literal(c[1])).collect() } else { l.args.iter().map(|c| self.any_arg(env, *c)).collect() };
        // enclosing iterators make the dynamic call instance identifiable
        for ia in self.iter_args(env) {
            if !args.iter().any(|(a, _)| *a == ia.0) {
                args.push(ia);
            }
        }
        let func = self.fresh_fun();
        let mut ret = self.ret_spec(l.ret, l.x, ctx.protected);
        if let Ret::Echo(i) = ret {
            if (i as usize) >= args.len() {
                ret = Ret::Str;
            }
        }
        let shapes: Vec<Shape> = args.iter().map(|(_, s)| s.clone()).collect();
        let shape = ret.shape(&shapes);
        if ret.fails() {
            self.feat.failing_services += 1;
        }
        self.services.insert(func.clone(), ret.clone());
        self.feat.calls += 1;
        let out_mode = if out_mode == 2 && !self.appends_allowed(env) { 1 } else { out_mode };
        let out = match out_mode {
            0 => None,
            1 => {
                let v = self.fresh("v");
                env.scalars.push((v.clone(), shape));
                Some(v)
            }
            _ => {
                // stream output: existing stream (prefer same shape) or a fresh one
                // call results are paced by host round trips, so appending to a stream that
                // an enclosing fold iterates (recursive stream) stays bounded by the step
                // bound of the simulator; `ap` appends (same run) never target such streams
                let app = if self.cfg.unbounded_rec && l.out % 3 == 0 {
                    let rec: Vec<(String, Shape)> = env.streams.iter().filter(|(n, _)| n.starts_with('$')).cloned().collect();
                    if rec.len() > self.appendable(env).len() {
                        self.feat.recursive += 1;
                        self.feat.unbounded_rec += 1;
                    }
                    rec
                } else {
                    self.appendable(env)
                };
                let name = if !app.is_empty() && pick(l.out, 3) != 0 {
                    app[pick(l.x, app.len())].0.clone()
                } else {
                    let s = self.fresh("$s");
                    env.streams.push((s.clone(), shape.clone()));
                    s
                };
                self.feat.stream_appends += 1;
                Some(name)
            }
        };
        let svc = Arg::Str(format!("srv{}", l.x % 3));
        let call = I::Call { peer, svc, func: Arg::Str(func), args: args.into_iter().map(|(a, _)| a).collect(), out };
        if ret.fails() && !ctx.protected && self.cfg.profile == Profile::Frag {
            return I::xor(call, I::Null);
        }
        call
    }

    fn leaf(&mut self, l: &Leaf, env: &mut Env, ctx: Ctx) -> I {
        let streams = self.streams_ok();
        // kind selection: weights differ per profile
        let k = pick(l.kind, 100);
        match k {
            // ---- calls
            0..=19 => self.call(l, env, ctx, 1),
            20..=27 => self.call(l, env, ctx, 0),
            28..=39 => {
                if streams {
                    self.call(l, env, ctx, 2)
                } else {
                    self.call(l, env, ctx, 1)
                }
            }
            // ---- ap scalar
            40..=47 => {
                let (src, sh) = self.any_arg(env, l.args.first().cloned().unwrap_or([l.x, l.out, l.ret]));
                let src = match src {
                    // canon map without lens is not an ap argument in the grammar? (it is: CanonStreamMap not listed) keep scalars only
                    Arg::Var { ref name, ref lens, .. } if name.starts_with("#%") && lens.is_empty() => Arg::Str("m".into()),
                    s => s,
                };
                let src = self.no_growth(src, env);
                let sh = if matches!(src, Arg::Str(_)) { Shape::Str } else { sh };
                let v = self.fresh("v");
                env.scalars.push((v.clone(), sh));
                I::Ap { src, dst: v }
            }
            // ---- ap stream
            48..=55 if streams && self.appends_allowed(env) => {
                let (src, sh) = self.any_arg(env, l.args.first().cloned().unwrap_or([l.x, l.out, l.ret]));
                let src = match src {
                    Arg::Var { ref name, ref lens, .. } if name.starts_with("#%") && lens.is_empty() => Arg::Str("m".into()),
                    s => s,
                };
                let src = self.no_growth(src, env);
                let sh = if matches!(src, Arg::Str(_)) { Shape::Str } else { sh };
                let app = self.appendable(env);
                let name = if !app.is_empty() && pick(l.out, 3) != 0 {
                    app[pick(l.x, app.len())].0.clone()
                } else {
                    let s = self.fresh("$s");
                    env.streams.push((s.clone(), sh));
                    s
                };
                self.feat.stream_appends += 1;
                I::Ap { src, dst: name }
            }
            // ---- ap map
            56..=61 if streams && self.appends_allowed(env) => {
                let (val, sh) = self.any_arg(env, l.args.first().cloned().unwrap_or([l.x, l.out, l.ret]));
                let val = match val {
                    Arg::Var { ref name, ref lens, .. } if name.starts_with("#%") && lens.is_empty() => Arg::Str("m".into()),
                    s => s,
                };
                let val = self.no_growth(val, env);
                let sh = if matches!(val, Arg::Str(_)) { Shape::Str } else { sh };
                let key = match pick(l.ret, 4) {
                    0 => Arg::Num((l.x % 3) as i64),
                    1 => {
                        let strs: Vec<Arg> = self
                            .readable(env, false)
                            .into_iter()
                            .filter(|(_, s)| *s == Shape::Str)
                            .map(|(a, _)| a)
                            .collect();
                        if strs.is_empty() {
                            Arg::Str(format!("k{}", l.x % 3))
                        } else {
                            strs[pick(l.x, strs.len())].clone()
                        }
                    }
                    _ => Arg::Str(format!("k{}", l.x % 3)),
                };
                let mapp: Vec<(String, Shape)> = env
                    .maps
                    .iter()
                    .filter(|(n, _)| !env.iters.iter().any(|(_, _, _, src)| src.as_deref() == Some(n.as_str())))
                    .cloned()
                    .collect();
                let name = if !mapp.is_empty() && pick(l.out, 3) != 0 {
                    mapp[pick(l.x, mapp.len())].0.clone()
                } else {
                    let s = self.fresh("%m");
                    env.maps.push((s.clone(), sh));
                    s
                };
                self.feat.map_appends += 1;
                I::ApMap { key, val, map: name }
            }
            // ---- canon
            62..=71 if streams && !env.streams.is_empty() => {
                let (s, sh) = env.streams[pick(l.x, env.streams.len())].clone();
                let c = self.fresh("#c");
                // the peer is resolved before the canon result exists
                let peer = self.target(env, l.peer, l.out);
                env.canons.push((c.clone(), sh));
                self.feat.canons += 1;
                I::Canon { peer, src: s, dst: c }
            }
            72..=75 if streams && !env.maps.is_empty() => {
                let (m, sh) = env.maps[pick(l.x, env.maps.len())].clone();
                self.feat.canons += 1;
                let peer = self.target(env, l.peer, l.out);
                if l.ret % 2 == 0 {
                    let c = self.fresh("#%k");
                    env.canon_maps.push((c.clone(), sh));
                    I::Canon { peer, src: m, dst: c }
                } else {
                    let v = self.fresh("v");
                    env.scalars.push((v.clone(), Shape::Unknown));
                    I::Canon { peer, src: m, dst: v }
                }
            }
            // ---- recursive append inside a stream fold over SmallObj elements
            // (part of the clean domain too since fixes F18/F19: the append goes to the folded stream itself)
            76..=79 if streams => {
                let cand: Vec<(String, String)> = env
                    .iters
                    .iter()
                    .filter(|(_, s, st, src)| *st && *s == Shape::SmallObj && src.as_deref().map(|x| x.starts_with('$')).unwrap_or(false))
                    .map(|(n, _, _, src)| (n.clone(), src.clone().unwrap()))
                    .collect();
                if cand.is_empty() {
                    return self.call(l, env, ctx, 1);
                }
                let (it, stream) = cand[pick(l.x, cand.len())].clone();
                let func = self.fresh_fun();
                let p = self.peer_ids()[pick(l.peer, self.peers.len())].clone();
                // "stop" object: unique `a`, n = 7 ends the recursion (guard below)
                self.services.insert(
                    func.clone(),
                    Ret::Const(serde_json::json!({"a": format!("stop-{}", func), "n": 7, "p": p})),
                );
                self.feat.recursive += 1;
                self.feat.calls += 1;
                let mut args = vec![Arg::var(&it)];
                for (ia, _) in self.iter_args(env) {
                    if !args.contains(&ia) {
                        args.push(ia);
                    }
                }
                let call = I::Call {
                    peer: self.peer_lit(l.peer),
                    svc: Arg::Str("rec".into()),
                    func: Arg::Str(func),
                    args,
                    out: Some(stream),
                };
                let guard = I::Mismatch(
                    Arg::Var { name: it, lens: vec![LensStep::Field("n".into())], length: false },
                    Arg::Num(7),
                    Box::new(call),
                );
                I::xor(guard, I::Null)
            }
            // ---- fail / never / null
            80..=82 => {
                if ctx.protected || self.cfg.profile == Profile::Any {
                    match l.x % 3 {
                        0 => I::Fail(FailKind::Lit(1 + (l.x % 5) as i64, format!("msg{}", l.x % 3))),
                        1 if self.cfg.profile == Profile::Any => I::Fail(FailKind::Arg(Arg::LastError(None))),
                        _ => I::Fail(FailKind::Lit(42, "fail".into())),
                    }
                } else if self.cfg.profile == Profile::Stream && l.x % 4 == 0 {
                    I::Fail(FailKind::Lit(7, "unprotected".into()))
                } else {
                    I::Null
                }
            }
            83 => I::Never,
            84..=86 => I::Null,
            _ => self.call(l, env, ctx, 1),
        }
    }

    fn el(&mut self, sk: &Sk, env: &mut Env, ctx: Ctx) -> I {
        let ctx = Ctx { depth: ctx.depth + 1, ..ctx };
        match sk {
            Sk::Leaf(l) => self.leaf(l, env, ctx),
            Sk::Seq(a, b) => {
                let ia = self.el(a, env, ctx);
                let ib = self.el(b, env, ctx);
                I::seq(ia, ib)
            }
            Sk::Par(a, b) => {
                self.feat.pars += 1;
                let c2 = Ctx { protected: false, ..ctx };
                let mut e1 = env.clone();
                let ia = self.el(a, &mut e1, c2);
                let mut e2 = env.clone();
                let ib = self.el(b, &mut e2, c2);
                // definitions of both branches are textually earlier for what follows
                merge_env(env, &e1);
                merge_env(env, &e2);
                I::par(ia, ib)
            }
            Sk::Xor(a, b) => {
                self.feat.xors += 1;
                let ia = self.el(a, env, Ctx { protected: true, ..ctx });
                let ib = self.el(b, env, ctx);
                I::xor(ia, ib)
            }
            Sk::Cond { c, body } => {
                let r = self.readable(env, false);
                let (a, sa) = if r.is_empty() { self.literal(c[0]) } else { r[pick(c[0], r.len())].clone() };
                // right operand: same variable (equal), a literal of the same shape, or another var
                let b = match pick(c[1], 4) {
                    0 => a.clone(),
                    1 if !r.is_empty() => r[pick(c[2], r.len())].0.clone(),
                    _ => match sa {
                        Shape::Num => Arg::Num((c[2] % 3) as i64),
                        _ => self.literal(c[2]).0,
                    },
                };
                let neg = c[3] % 2 == 1;
                let inner = self.el(body, env, ctx);
                let m = if neg { I::Mismatch(a, b, Box::new(inner)) } else { I::Match(a, b, Box::new(inner)) };
                if !ctx.protected && self.cfg.profile == Profile::Frag {
                    I::xor(m, I::Null)
                } else {
                    m
                }
            }
            Sk::New { c, body } => {
                self.feat.news += 1;
                let streams = self.streams_ok();
                match pick(*c, 6) {
                    0 | 1 if streams && !env.streams.is_empty() => {
                        // restrict an existing stream name
                        let (s, _) = env.streams[pick(c.wrapping_mul(31), env.streams.len())].clone();
                        let inner = self.el(body, env, ctx);
                        I::New { var: s, body: Box::new(inner) }
                    }
                    2 if streams => {
                        let s = self.fresh("$s");
                        env.streams.push((s.clone(), Shape::Unknown));
                        let inner = self.el(body, env, ctx);
                        env.streams.retain(|(n, _)| *n != s);
                        I::New { var: s, body: Box::new(inner) }
                    }
                    3 if streams && !env.maps.is_empty() => {
                        let (m, _) = env.maps[pick(c.wrapping_mul(31), env.maps.len())].clone();
                        let inner = self.el(body, env, ctx);
                        I::New { var: m, body: Box::new(inner) }
                    }
                    4 if streams && !env.canons.is_empty() => {
                        let (cn, _) = env.canons[pick(c.wrapping_mul(31), env.canons.len())].clone();
                        // inside, the canon is undefined until re-canonicalised: hide it
                        let saved = env.canons.clone();
                        env.canons.retain(|(n, _)| *n != cn);
                        let inner = self.el(body, env, ctx);
                        env.canons = saved;
                        I::New { var: cn, body: Box::new(inner) }
                    }
                    5 | 0 | 1 if !env.scalars.is_empty() => {
                        // restrict an existing scalar and re-assign it inside the scope: after the
                        // scope the outer value must be visible again
                        let (x, outer_shape) = env.scalars[pick(c.wrapping_mul(131), env.scalars.len())].clone();
                        let func = self.fresh_fun();
                        self.services.insert(func.clone(), Ret::Str);
                        self.feat.calls += 1;
                        self.feat.new_shadowing += 1;
                        let mut args = vec![];
                        for (ia, _) in self.iter_args(env) {
                            args.push(ia);
                        }
                        let redefine = I::Call { peer: self.peer_lit(c.wrapping_mul(977)), svc: Arg::Str("shadow".into()), func: Arg::Str(func), args, out: Some(x.clone()) };
                        if let Some(e) = env.scalars.iter_mut().find(|(n, _)| *n == x) {
                            e.1 = Shape::Str;
                        }
                        let inner = self.el(body, env, ctx);
                        if let Some(e) = env.scalars.iter_mut().find(|(n, _)| *n == x) {
                            e.1 = outer_shape;
                        }
                        // under a protecting xor: sometimes leave the scope through a catchable error
                        let inner = if ctx.protected && c % 3 == 0 {
                            self.feat.new_left_by_error += 1;
                            I::seq(inner, I::Fail(FailKind::Lit(9, "leave-scope".into())))
                        } else {
                            inner
                        };
                        I::New { var: x, body: Box::new(I::seq(redefine, inner)) }
                    }
                    _ => {
                        // a fresh scalar name, unused inside (scalars are single-assignment
                        // globally, so `new` on a scalar only matters for shadowing)
                        let v = self.fresh("v");
                        let inner = self.el(body, env, ctx);
                        I::New { var: v, body: Box::new(inner) }
                    }
                }
            }
            Sk::Fold { c, body, last } => self.fold(c, body, last.as_deref(), env, ctx),
        }
    }

    fn fold(&mut self, c: &[u16; 4], body: &Sk, last: Option<&Sk>, env: &mut Env, ctx: Ctx) -> I {
        let streams = self.streams_ok();
        // with streams allowed, make stream folds frequent: when no stream is in scope (or
        // sometimes anyway) first fill a fresh stream from two peers, then fold over it
        // clean configuration: a stream-like fold is executed once, i.e. not inside any fold
        let no_nested = self.cfg.stream_fold_par_only && !env.iters.is_empty();
        if streams && !no_nested && pick(c[0], 100) < 45 && (env.streams.is_empty() || c[1] % 3 == 0) {
            if c[1] % 8 == 3 {
                // a stream map with a re-written key, canonicalised and folded over
                let m = self.fresh("%m");
                let cm = self.fresh("#%k");
                let n = 3 + (c[2] % 3) as usize;
                let mut v: Vec<I> = (0..n)
                    .map(|k| I::ApMap { key: Arg::Str(format!("k{}", k % 2 + (k / 3))), val: Arg::Str(format!("lit{}", k)), map: m.clone() })
                    .collect();
                self.feat.map_appends += n;
                self.feat.canons += 1;
                self.feat.rewritten_map_key += 1;
                let peer = self.peer_lit(c[2]);
                v.push(I::Canon { peer, src: m.clone(), dst: cm.clone() });
                env.maps.push((m, Shape::Str));
                env.canon_maps.push((cm.clone(), Shape::Str));
                let mut c2 = *c;
                c2[0] = 65535;
                let f = self.fold_inner(&c2, body, last, env, ctx, Some(cm));
                v.push(f);
                return I::seq_all(v);
            }
            let s = self.fresh("$s");
            if c[1] % 4 == 1 {
                // same-generation fill: several aps of distinct literals executed in one run;
                // the literals come from the pool `match`/`mismatch` conditions compare against
                let n = 3 + (c[2] % 3) as usize;
                let aps: Vec<I> = (0..n).map(|k| I::Ap { src: Arg::Str(format!("lit{}", k)), dst: s.clone() }).collect();
                self.feat.stream_appends += n;
                self.feat.same_gen_fill += 1;
                env.streams.push((s.clone(), Shape::Str));
                let mut c2 = *c;
                c2[0] = 65535;
                let f = self.fold_inner(&c2, body, last, env, ctx, Some(s));
                return I::seq(I::seq_all(aps), f);
            }
            let obj = c[1] % 2 == 0;
            let mut appends = vec![];
            for k in 0..(2 + (c[2] % 2) as usize) {
                let func = self.fresh_fun();
                let ret = if obj { Ret::Const(serde_json::json!({"a": format!("{}-elem", func), "n": k, "p": self.peer_ids()[pick(c[3].wrapping_add(k as u16 * 9973), self.peers.len())]})) } else { Ret::Str };
                self.services.insert(func.clone(), ret);
                self.feat.calls += 1;
                self.feat.stream_appends += 1;
                let mut args = vec![];
                for (ia, _) in self.iter_args(env) {
                    args.push(ia);
                }
                appends.push(I::Call {
                    peer: self.peer_lit(c[2].wrapping_add(k as u16 * 21845)),
                    svc: Arg::Str("fill".into()),
                    func: Arg::Str(func),
                    args,
                    out: Some(s.clone()),
                });
            }
            let filled = if c[3] % 2 == 0 {
                self.feat.pars += 1;
                let last = appends.pop().unwrap();
                I::par(I::seq_all(appends), last)
            } else {
                I::seq_all(appends)
            };
            env.streams.push((s.clone(), if obj { Shape::SmallObj } else { Shape::Str }));
            // force the choice of this stream below
            let mut c2 = *c;
            c2[0] = 65535;
            let f = self.fold_inner(&c2, body, last, env, ctx, Some(s));
            return I::seq(filled, f);
        }
        self.fold_inner(c, body, last, env, ctx, None)
    }

    fn fold_inner(&mut self, c: &[u16; 4], body: &Sk, last: Option<&Sk>, env: &mut Env, ctx: Ctx, force_stream: Option<String>) -> I {
        let streams = self.streams_ok();
        // iterable candidates
        #[derive(Clone)]
        enum It {
            Scalar(Arg, Shape),
            Canon(String, Shape),
            CanonMap(String, Shape),
            Stream(String, Shape),
            Map(String, Shape),
            Empty,
        }
        let mut cands: Vec<It> = Vec::new();
        for (a, s) in self.readable(env, false) {
            if let Shape::Arr(inner) = &s {
                cands.push(It::Scalar(a.clone(), (**inner).clone()));
            }
        }
        if streams {
            for (n, s) in &env.canons {
                cands.push(It::Canon(n.clone(), s.clone()));
            }
            for (n, s) in &env.canon_maps {
                cands.push(It::CanonMap(n.clone(), s.clone()));
            }
            // "clean" configuration: no stream-like fold nested in a stream-like fold
            let nested_ok = !(self.cfg.stream_fold_par_only && !env.iters.is_empty());
            if nested_ok {
                for (n, s) in &env.streams {
                    cands.push(It::Stream(n.clone(), s.clone()));
                    cands.push(It::Stream(n.clone(), s.clone()));
                }
                for (n, s) in &env.maps {
                    cands.push(It::Map(n.clone(), s.clone()));
                }
            }
        }
        if cands.is_empty() {
            // no array in scope: produce one first
            let func = self.fresh_fun();
            let n = 1 + (c[1] % self.cfg.max_arr.max(1) as u16) as u8;
            let ret = if c[1] % 2 == 0 { Ret::ArrStr(n) } else { Ret::ArrObj(n, self.peer_ids()) };
            let shape = ret.shape(&[]);
            self.services.insert(func.clone(), ret);
            self.feat.calls += 1;
            let v = self.fresh("v");
            let mut args = vec![];
            for (ia, _) in self.iter_args(env) {
                args.push(ia);
            }
            let call = I::Call {
                peer: self.peer_lit(c[2]),
                svc: Arg::Str("arr".into()),
                func: Arg::Str(func),
                args,
                out: Some(v.clone()),
            };
            env.scalars.push((v, shape));
            let f = self.fold_inner(c, body, last, env, ctx, None);
            return I::seq(call, f);
        }
        if self.cfg.profile == Profile::Any && c[0] % 37 == 0 {
            cands.push(It::Empty);
        }
        let it = match &force_stream {
            Some(fs) => cands
                .iter()
                .find(|x| matches!(x, It::Stream(n, _) | It::CanonMap(n, _) if n == fs))
                .cloned()
                .unwrap_or_else(|| cands[pick(c[0], cands.len())].clone()),
            None => cands[pick(c[0], cands.len())].clone(),
        };
        let iter = self.fresh("i");
        let (iterable, elem, streamlike, src_stream) = match &it {
            It::Scalar(a, s) => {
                self.feat.fold_scalar += 1;
                (a.clone(), s.clone(), false, None)
            }
            It::Canon(n, s) => {
                self.feat.fold_canon += 1;
                (Arg::var(n), s.clone(), false, None)
            }
            It::CanonMap(n, s) => {
                self.feat.fold_canon += 1;
                (Arg::var(n), Shape::Kv(Box::new(s.clone())), false, None)
            }
            It::Stream(n, s) => {
                if env.iters.iter().any(|(_, _, st, _)| *st) {
                    self.feat.nested_stream_fold += 1;
                }
                self.feat.fold_stream += 1;
                (Arg::var(n), s.clone(), true, Some(n.clone()))
            }
            It::Map(n, s) => {
                if env.iters.iter().any(|(_, _, st, _)| *st) {
                    self.feat.nested_stream_fold += 1;
                }
                self.feat.fold_map += 1;
                (Arg::var(n), Shape::Kv(Box::new(s.clone())), true, Some(n.clone()))
            }
            It::Empty => (Arg::EmptyArr, Shape::Unknown, false, None),
        };
        let saved = env.clone();
        env.iters.push((iter.clone(), elem, streamlike, src_stream));
        let inner_ctx = Ctx { protected: ctx.protected, ..ctx };
        // shape of the body around `next`
        let mut shape = pick(c[3], if streamlike { 6 } else { 8 });
        if streamlike && self.cfg.stream_fold_par_only {
            shape = 3;
        }
        if streamlike && !(shape == 3 || shape == 4) {
            self.feat.seq_stream_fold += 1;
        }
        let nx = I::Next(iter.clone());
        let b = match shape {
            0 | 1 | 2 => {
                let x = self.el(body, env, inner_ctx);
                I::seq(x, nx)
            }
            3 | 4 => {
                self.feat.pars += 1;
                let x = self.el(body, env, Ctx { protected: false, ..inner_ctx });
                I::par(x, nx)
            }
            5 => {
                // no next: body runs once
                self.el(body, env, inner_ctx)
            }
            6 => {
                // next first (scalar folds only)
                let x = self.el(body, env, inner_ctx);
                I::seq(nx, x)
            }
            _ => {
                // (xor (seq X (next i)) (null))
                let x = self.el(body, env, Ctx { protected: true, ..inner_ctx });
                I::xor(I::seq(x, nx), I::Null)
            }
        };
        // last instruction: for stream-like folds prefer an explicit one so that execution
        // can continue after the fold
        let last_i = match last {
            // clean domain: the last instruction of a stream-like fold is `(null)`: it runs once per
            // generation chain, for whichever value a peer iterates last, so its results depend on
            // the peer's view of the generations and are lost on merge (K9)
            Some(_) if streamlike && self.cfg.stream_fold_par_only => Some(Box::new(I::Null)),
            Some(l) => Some(Box::new(self.el(l, env, inner_ctx))),
            None => {
                if streamlike && c[2] % 4 != 0 {
                    Some(Box::new(I::Null))
                } else {
                    None
                }
            }
        };
        // leave the fold scope: scalars/canons defined inside are not visible afterwards,
        // streams and maps are global
        let streams_now = env.streams.clone();
        let maps_now = env.maps.clone();
        *env = saved;
        for s in streams_now {
            if !env.streams.iter().any(|(n, _)| *n == s.0) {
                env.streams.push(s);
            }
        }
        for m in maps_now {
            if !env.maps.iter().any(|(n, _)| *n == m.0) {
                env.maps.push(m);
            }
        }
        I::Fold { iterable, iter, body: Box::new(b), last: last_i }
    }
}

fn merge_env(dst: &mut Env, src: &Env) {
    for s in &src.scalars {
        if !dst.scalars.iter().any(|(n, _)| *n == s.0) {
            dst.scalars.push(s.clone());
        }
    }
    for s in &src.streams {
        if !dst.streams.iter().any(|(n, _)| *n == s.0) {
            dst.streams.push(s.clone());
        }
    }
    for s in &src.maps {
        if !dst.maps.iter().any(|(n, _)| *n == s.0) {
            dst.maps.push(s.clone());
        }
    }
    for s in &src.canons {
        if !dst.canons.iter().any(|(n, _)| *n == s.0) {
            dst.canons.push(s.clone());
        }
    }
    for s in &src.canon_maps {
        if !dst.canon_maps.iter().any(|(n, _)| *n == s.0) {
            dst.canon_maps.push(s.clone());
        }
    }
}

/// lens paths valid for a shape (path, resulting shape)
pub fn lens_paths(sh: &Shape) -> Vec<(Vec<LensStep>, Shape)> {
    use LensStep::*;
    let f = |s: &str| Field(s.to_string());
    match sh {
        Shape::Obj => vec![
            (vec![f("a")], Shape::Str),
            (vec![f("b")], Shape::Arr(Box::new(Shape::Str))),
            (vec![f("b"), Idx(1)], Shape::Str),
            (vec![f("p")], Shape::Peer),
            (vec![f("n")], Shape::Num),
            (vec![f("o")], Shape::Inner),
            (vec![f("o"), f("x")], Shape::Str),
        ],
        Shape::SmallObj => vec![(vec![f("a")], Shape::Str), (vec![f("n")], Shape::Num), (vec![f("p")], Shape::Peer)],
        Shape::Inner => vec![(vec![f("x")], Shape::Str)],
        Shape::Kv(v) => vec![(vec![f("key")], Shape::Unknown), (vec![f("value")], (**v).clone())],
        Shape::Arr(inner) => {
            let mut v = vec![(vec![Idx(0)], (**inner).clone())];
            if **inner == Shape::SmallObj {
                v.push((vec![Idx(0), f("p")], Shape::Peer));
            }
            v
        }
        _ => vec![],
    }
}

/// Strategy producing elaborated scripts (kept together with the skeleton for Debug output)
pub fn script_strategy(cfg: GenCfg, depth: u32, size: u32) -> impl Strategy<Value = (Sk, Script)> {
    sk_strategy(depth, size).prop_map(move |sk| {
        let s = elaborate(&sk, &cfg);
        (sk, s)
    })
}

//! Compact human-readable rendering of traces (triage tool).
use air_interpreter_data::*;

fn short(c: &str) -> String {
    c.chars().rev().take(6).collect::<String>().chars().rev().collect()
}

pub fn state(st: &ExecutedState, d: &InterpreterData) -> String {
    match st {
        ExecutedState::Par(p) => format!("par({},{})", p.left_size, p.right_size),
        ExecutedState::Call(CallResult::RequestSentBy(Sender::PeerId(p))) => format!("sent_by({})", short(p)),
        ExecutedState::Call(CallResult::RequestSentBy(Sender::PeerIdWithCallId { peer_id, call_id })) => {
            format!("sent_by({}:{})", short(peer_id), call_id)
        }
        ExecutedState::Call(CallResult::Executed(ValueRef::Scalar(c))) => format!("scalar({}){}", short(&c.get_inner()), val(c, d)),
        ExecutedState::Call(CallResult::Executed(ValueRef::Stream { cid, generation })) => {
            format!("stream({},gen {}){}", short(&cid.get_inner()), generation, val(cid, d))
        }
        ExecutedState::Call(CallResult::Executed(ValueRef::Unused(c))) => format!("unused({})", short(&c.get_inner())),
        ExecutedState::Call(CallResult::Failed(c)) => format!("failed({}){}", short(&c.get_inner()), val(c, d)),
        ExecutedState::Fold(f) => {
            let l: Vec<String> = f
                .lore
                .iter()
                .map(|e| {
                    let ds: Vec<String> = e.subtraces_desc.iter().map(|s| format!("[{},{}]", s.begin_pos, s.subtrace_len)).collect();
                    format!("{}-{}", e.value_pos, ds.join(""))
                })
                .collect();
            format!("fold({})", l.join(" "))
        }
        ExecutedState::Ap(a) => format!("ap({:?})", a.res_generations),
        ExecutedState::Canon(CanonResult::RequestSentBy(p)) => format!("canon_sent_by({})", short(p)),
        ExecutedState::Canon(CanonResult::Executed(c)) => {
            let n = d.cid_info.canon_result_store.get(c).map(|r| r.values.len() as i64).unwrap_or(-1);
            format!("canon({},{} values)", short(&c.get_inner()), n)
        }
    }
}

fn val(c: &air_interpreter_cid::CID<ServiceResultCidAggregate>, d: &InterpreterData) -> String {
    match d.cid_info.service_result_store.get(c) {
        Some(sr) => match d.cid_info.value_store.get(&sr.value_cid) {
            Some(v) => {
                let t = crate::model::data::raw_text(&v);
                let t: String = t.chars().take(28).collect();
                format!("={}", t)
            }
            None => "=?".into(),
        },
        None => "=??".into(),
    }
}

pub fn trace(d: &InterpreterData) -> String {
    d.trace.iter().enumerate().map(|(i, s)| format!("{}:{}", i, state(s, d))).collect::<Vec<_>>().join("  ")
}

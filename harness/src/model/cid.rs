//! Independent CID implementation (CIDv1, multibase text), written from the CID /
//! multihash / multibase specifications; uses only the hash crates.

use sha2::{Digest, Sha256};

pub const JSON_CODEC: u64 = 0x0200;
pub const SHA2_256: u64 = 0x12;
pub const BLAKE3: u64 = 0x1e;

fn varint(mut x: u64, out: &mut Vec<u8>) {
    loop {
        let b = (x & 0x7f) as u8;
        x >>= 7;
        if x == 0 {
            out.push(b);
            break;
        }
        out.push(b | 0x80);
    }
}

fn read_varint(b: &[u8], pos: &mut usize) -> Option<u64> {
    let mut x: u64 = 0;
    let mut shift = 0;
    for _ in 0..9 {
        let byte = *b.get(*pos)?;
        *pos += 1;
        x |= ((byte & 0x7f) as u64) << shift;
        if byte & 0x80 == 0 {
            return Some(x);
        }
        shift += 7;
    }
    None
}

const B32: &[u8; 32] = b"abcdefghijklmnopqrstuvwxyz234567";

pub fn base32_lower(data: &[u8]) -> String {
    let mut out = String::new();
    let mut acc: u32 = 0;
    let mut bits = 0;
    for b in data {
        acc = (acc << 8) | *b as u32;
        bits += 8;
        while bits >= 5 {
            bits -= 5;
            out.push(B32[((acc >> bits) & 31) as usize] as char);
        }
    }
    if bits > 0 {
        out.push(B32[((acc << (5 - bits)) & 31) as usize] as char);
    }
    out
}

pub fn base32_decode(s: &str, upper: bool) -> Option<Vec<u8>> {
    let mut out = Vec::new();
    let mut acc: u32 = 0;
    let mut bits = 0;
    for ch in s.bytes() {
        let c = if upper { ch.to_ascii_lowercase() } else { ch };
        if upper && ch.is_ascii_lowercase() {
            return None;
        }
        let v = B32.iter().position(|x| *x == c)? as u32;
        acc = (acc << 5) | v;
        bits += 5;
        if bits >= 8 {
            bits -= 8;
            out.push(((acc >> bits) & 0xff) as u8);
        }
    }
    Some(out)
}

pub fn blake3_256(data: &[u8]) -> Vec<u8> {
    blake3::hash(data).as_bytes().to_vec()
}

pub fn sha2_256(data: &[u8]) -> Vec<u8> {
    let mut h = Sha256::new();
    h.update(data);
    h.finalize().to_vec()
}

pub fn cid_bytes(codec: u64, hash_code: u64, digest: &[u8]) -> Vec<u8> {
    let mut v = Vec::new();
    varint(1, &mut v);
    varint(codec, &mut v);
    varint(hash_code, &mut v);
    varint(digest.len() as u64, &mut v);
    v.extend_from_slice(digest);
    v
}

pub fn cid_text_b32(bytes: &[u8]) -> String {
    format!("b{}", base32_lower(bytes))
}

/// The CID the interpreter assigns to canonical bytes: CIDv1, JSON codec, BLAKE3-256, base32.
pub fn cid_of(data: &[u8]) -> String {
    cid_text_b32(&cid_bytes(JSON_CODEC, BLAKE3, &blake3_256(data)))
}

pub fn cid_of_sha2(data: &[u8]) -> String {
    cid_text_b32(&cid_bytes(JSON_CODEC, SHA2_256, &sha2_256(data)))
}

pub fn cid_of_json<T: serde::Serialize>(v: &T) -> String {
    cid_of(serde_json::to_string(v).expect("json").as_bytes())
}

#[derive(Debug, Clone, PartialEq)]
pub struct ParsedCid {
    pub version: u64,
    pub codec: u64,
    pub hash_code: u64,
    pub digest_len: u64,
    pub digest: Vec<u8>,
    /// bytes left after the digest
    pub trailing: usize,
}

#[derive(Debug, Clone, PartialEq)]
pub enum CidParse {
    Ok(ParsedCid),
    Malformed,
    /// a multibase this model does not implement: not judged
    UnknownBase,
}

pub fn parse_cid(text: &str) -> CidParse {
    // CIDv0: 46 chars base58 starting with Qm
    if text.len() == 46 && text.starts_with("Qm") {
        return match bs58::decode(text).into_vec() {
            Ok(b) if b.len() == 34 && b[0] == 0x12 && b[1] == 0x20 => CidParse::Ok(ParsedCid {
                version: 0,
                codec: 0x70,
                hash_code: 0x12,
                digest_len: 32,
                digest: b[2..].to_vec(),
                trailing: 0,
            }),
            _ => CidParse::Malformed,
        };
    }
    let mut chars = text.chars();
    let base = match chars.next() {
        Some(c) => c,
        None => return CidParse::Malformed,
    };
    if !base.is_ascii() {
        return CidParse::Malformed;
    }
    let rest = &text[1..];
    let bytes = match base {
        'b' => base32_decode(rest, false),
        'B' => base32_decode(rest, true),
        'z' => bs58::decode(rest).into_vec().ok(),
        'f' => {
            if rest.len() % 2 == 0 && rest.bytes().all(|c| c.is_ascii_digit() || (b'a'..=b'f').contains(&c)) {
                Some(crate::core::unhex(rest))
            } else {
                None
            }
        }
        'F' => {
            if rest.len() % 2 == 0 && rest.bytes().all(|c| c.is_ascii_digit() || (b'A'..=b'F').contains(&c)) {
                Some(crate::core::unhex(&rest.to_ascii_lowercase()))
            } else {
                None
            }
        }
        _ => return CidParse::UnknownBase,
    };
    let bytes = match bytes {
        Some(b) => b,
        None => return CidParse::Malformed,
    };
    // a text with non-zero padding bits (or otherwise not the canonical spelling of its bytes)
    // may or may not be accepted by a decoder (RFC 4648 section 3.5): not judged
    let respelled = match base {
        'b' => Some(base32_lower(&bytes)),
        'B' => Some(base32_lower(&bytes).to_ascii_uppercase()),
        'z' => Some(bs58::encode(&bytes).into_string()),
        _ => None,
    };
    if let Some(r) = respelled {
        if r != rest {
            return CidParse::UnknownBase;
        }
    }
    let mut pos = 0;
    let version = match read_varint(&bytes, &mut pos) {
        Some(v) => v,
        None => return CidParse::Malformed,
    };
    if version != 1 {
        return CidParse::Malformed;
    }
    let codec = match read_varint(&bytes, &mut pos) {
        Some(v) => v,
        None => return CidParse::Malformed,
    };
    let hash_code = match read_varint(&bytes, &mut pos) {
        Some(v) => v,
        None => return CidParse::Malformed,
    };
    let digest_len = match read_varint(&bytes, &mut pos) {
        Some(v) => v,
        None => return CidParse::Malformed,
    };
    if (bytes.len() - pos) < digest_len as usize {
        return CidParse::Malformed;
    }
    let digest = bytes[pos..pos + digest_len as usize].to_vec();
    let trailing = bytes.len() - pos - digest_len as usize;
    CidParse::Ok(ParsedCid { version, codec, hash_code, digest_len, digest, trailing })
}

#[derive(Debug, Clone, PartialEq)]
pub enum Verdict {
    Accept,
    Reject,
    /// outside what this model judges (exotic multibase, trailing bytes, oversize digests)
    Unknown,
}

/// Should verification of (cid text, canonical bytes) succeed?
pub fn model_verify(text: &str, canonical: &[u8]) -> Verdict {
    match parse_cid(text) {
        CidParse::UnknownBase => Verdict::Unknown,
        CidParse::Malformed => Verdict::Reject,
        CidParse::Ok(p) => {
            if p.trailing != 0 {
                return Verdict::Unknown;
            }
            if p.version != 1 || p.codec != JSON_CODEC {
                return Verdict::Reject;
            }
            let full = match p.hash_code {
                SHA2_256 => sha2_256(canonical),
                BLAKE3 => blake3_256(canonical),
                _ => return Verdict::Reject,
            };
            if p.digest_len > 64 {
                return Verdict::Unknown;
            }
            if p.digest == full {
                Verdict::Accept
            } else {
                Verdict::Reject
            }
        }
    }
}

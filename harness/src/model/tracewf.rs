//! Structural well-formedness of a produced trace (C10), written from the property text:
//! par sizes cover exactly the following entries, nested entries stay inside the parent's
//! range, fold iteration ranges partition the entries after the fold, each iteration
//! points to an earlier stream value entry, no placeholder generation.

use air_interpreter_data::*;

pub const PLACEHOLDER_GEN: u32 = 0xCAFEBABE;

#[derive(Default, Debug, Clone)]
pub struct WfStats {
    pub pars: usize,
    pub folds: usize,
    pub max_nesting: usize,
    pub fold_in_par_in_fold: bool,
    pub multi_generation_fold: bool,
    pub nonempty_after: bool,
}

fn gen_of(st: &ExecutedState) -> Option<Vec<u32>> {
    match st {
        ExecutedState::Call(CallResult::Executed(ValueRef::Stream { generation, .. })) => Some(vec![usize::from(*generation) as u32]),
        ExecutedState::Ap(a) => Some(a.res_generations.iter().map(|g| usize::from(*g) as u32).collect()),
        _ => None,
    }
}

pub fn check(trace: &[ExecutedState]) -> Result<WfStats, String> {
    let mut st = WfStats::default();
    for (i, s) in trace.iter().enumerate() {
        if let Some(gens) = gen_of(s) {
            if matches!(s, ExecutedState::Ap(_)) && gens.len() != 1 {
                return Err(format!("ap state at {} has {} generations", i, gens.len()));
            }
            if gens.iter().any(|g| *g == PLACEHOLDER_GEN) {
                return Err(format!("state at {} carries the placeholder generation", i));
            }
        }
    }
    scan(trace, 0, trace.len(), 0, &mut vec![], &mut st)?;
    Ok(st)
}

/// scan [lo, hi) as a forest; `ctx` is the stack of enclosing kinds ('p' / 'f')
fn scan(t: &[ExecutedState], lo: usize, hi: usize, depth: usize, ctx: &mut Vec<char>, st: &mut WfStats) -> Result<(), String> {
    st.max_nesting = st.max_nesting.max(depth);
    let mut i = lo;
    while i < hi {
        match &t[i] {
            ExecutedState::Par(p) => {
                st.pars += 1;
                let l = p.left_size as usize;
                let r = p.right_size as usize;
                let end = i.checked_add(1).and_then(|x| x.checked_add(l)).and_then(|x| x.checked_add(r)).ok_or("par sizes overflow")?;
                if end > hi {
                    return Err(format!("par at {} with sizes ({},{}) exceeds its enclosing range [{}, {})", i, l, r, lo, hi));
                }
                ctx.push('p');
                scan(t, i + 1, i + 1 + l, depth + 1, ctx, st)?;
                scan(t, i + 1 + l, end, depth + 1, ctx, st)?;
                ctx.pop();
                i = end;
            }
            ExecutedState::Fold(f) => {
                st.folds += 1;
                let mut total: usize = 0;
                let mut intervals: Vec<(usize, usize)> = vec![];
                let mut seen_values = std::collections::BTreeSet::new();
                let mut gens = std::collections::BTreeSet::new();
                for (k, e) in f.lore.iter().enumerate() {
                    if e.subtraces_desc.len() != 2 {
                        return Err(format!("fold at {}: lore entry {} has {} descriptors", i, k, e.subtraces_desc.len()));
                    }
                    let vp = usize::from(e.value_pos);
                    if !seen_values.insert(vp) {
                        return Err(format!("fold at {}: value position {} used by two iterations", i, vp));
                    }
                    let before = &e.subtraces_desc[0];
                    let after = &e.subtraces_desc[1];
                    if before.subtrace_len > 0 || after.subtrace_len > 0 {
                        if vp >= usize::from(before.begin_pos) {
                            return Err(format!("fold at {}: iteration {} points to value {} which is not earlier than its range {}", i, k, vp, before.begin_pos));
                        }
                    }
                    match t.get(vp) {
                        Some(s @ ExecutedState::Ap(_)) | Some(s @ ExecutedState::Call(CallResult::Executed(ValueRef::Stream { .. }))) => {
                            if let Some(g) = gen_of(s) {
                                gens.extend(g);
                            }
                        }
                        Some(_) => return Err(format!("fold at {}: iteration {} points to {} which is not a stream value entry", i, k, vp)),
                        None => return Err(format!("fold at {}: iteration {} points outside the trace ({})", i, k, vp)),
                    }
                    if after.subtrace_len > 0 {
                        st.nonempty_after = true;
                    }
                    for d in [before, after] {
                        let b = usize::from(d.begin_pos);
                        let len = d.subtrace_len as usize;
                        total = total.checked_add(len).ok_or("lore lengths overflow")?;
                        if len > 0 {
                            intervals.push((b, len));
                        }
                    }
                }
                if gens.len() >= 2 {
                    st.multi_generation_fold = true;
                }
                let end = i.checked_add(1).and_then(|x| x.checked_add(total)).ok_or("fold region overflow")?;
                if end > hi {
                    return Err(format!("fold at {} covers {} entries and exceeds its enclosing range [{}, {})", i, total, lo, hi));
                }
                // every range, empty or not, lies inside the fold's region (an empty range keeps
                // the position where its entries would be): nested entries stay inside the parent
                for (k, e) in f.lore.iter().enumerate() {
                    for (which, d) in [("before", &e.subtraces_desc[0]), ("after", &e.subtraces_desc[1])] {
                        let b = usize::from(d.begin_pos);
                        let len = d.subtrace_len as usize;
                        if b < i + 1 || b.checked_add(len).map(|x| x > end).unwrap_or(true) {
                            return Err(format!(
                                "fold at {}: {} range [{}, +{}) of iteration {} is outside the fold's region [{}, {})",
                                i, which, b, len, k, i + 1, end
                            ));
                        }
                    }
                }
                // iterations of one generation are nested (before_1 .. before_n after_n .. after_1):
                // reading the lore in order, every `before` range starts where the previous range
                // of the chain ended; the `after` ranges close in reverse order
                chain_check(i, &f.lore)?;
                intervals.sort();
                let mut pos = i + 1;
                for (b, len) in &intervals {
                    if *b != pos {
                        return Err(format!(
                            "fold at {}: iteration ranges do not partition [{}, {}): expected a range starting at {} but found [{}, +{}) ({})",
                            i,
                            i + 1,
                            end,
                            pos,
                            b,
                            len,
                            if *b < pos { "overlap" } else { "gap" }
                        ));
                    }
                    pos += len;
                }
                if pos != end {
                    return Err(format!("fold at {}: iteration ranges end at {} instead of {}", i, pos, end));
                }
                if ctx.len() >= 2 && ctx[ctx.len() - 1] == 'p' && ctx.iter().rev().skip(1).any(|c| *c == 'f') {
                    st.fold_in_par_in_fold = true;
                }
                ctx.push('f');
                scan(t, i + 1, end, depth + 1, ctx, st)?;
                ctx.pop();
                i = end;
            }
            _ => i += 1,
        }
    }
    Ok(())
}

/// The ranges of a fold form a bracket structure: iterations over values of one generation
/// are nested (before_1 .. before_n after_n .. after_1), generations follow one another.
/// Walking the lore in order with a stack of open iterations: the innermost open iteration is
/// closed whenever its `after` range starts at the current position (its begin position is a
/// fixed number, so not closing it now could only be consistent if all later ranges were empty,
/// in which case the order does not matter); then the next
/// `before` range must start at the current position.  At the end all iterations close.
fn chain_check(fold_pos: usize, lore: &[FoldSubTraceLore]) -> Result<(), String> {
    let mut pos = fold_pos + 1;
    let mut open: Vec<usize> = vec![];
    for (k, e) in lore.iter().enumerate() {
        let bef = &e.subtraces_desc[0];
        let b = usize::from(bef.begin_pos);
        while let Some(&j) = open.last() {
            let a = &lore[j].subtraces_desc[1];
            if usize::from(a.begin_pos) != pos {
                break;
            }
            pos += a.subtrace_len as usize;
            open.pop();
        }
        if b != pos {
            return Err(format!("fold at {}: before range of iteration {} starts at {} but the previous ranges end at {}", fold_pos, k, b, pos));
        }
        pos += bef.subtrace_len as usize;
        open.push(k);
    }
    while let Some(j) = open.pop() {
        let a = &lore[j].subtraces_desc[1];
        if usize::from(a.begin_pos) != pos {
            return Err(format!("fold at {}: after range of iteration {} starts at {} but the previous ranges end at {}", fold_pos, j, usize::from(a.begin_pos), pos));
        }
        pos += a.subtrace_len as usize;
    }
    Ok(())
}


//! Independent scope analysis of the syntax tree returned by `air_parser::parse` (C23),
//! written from the property text: every variable used in an accepted script is defined
//! earlier in the text (call/ap/canon output, `new` argument, fold iterator), every `next`
//! refers to an enclosing fold, and the tree has no error nodes.

use air_lambda_ast::{LambdaAST, ValueAccessor};
use air_parser::ast::*;

#[derive(Clone, Debug, PartialEq)]
pub enum OccKind {
    Use,
    Def,
}

#[derive(Clone, Debug)]
pub struct Occ {
    pub name: String,
    pub pos: usize,
    pub kind: OccKind,
    pub what: &'static str,
}

#[derive(Default, Debug)]
pub struct ScopeInfo {
    pub occs: Vec<Occ>,
    /// (iterator name, position, is enclosed by a fold with that iterator)
    pub nexts: Vec<(String, usize, bool)>,
    pub error_nodes: Vec<&'static str>,
    pub max_scope_depth: usize,
    pub instructions: usize,
}

struct W {
    info: ScopeInfo,
    iters: Vec<String>,
    depth: usize,
}

impl W {
    fn use_(&mut self, name: &str, pos: AirPosLike, what: &'static str) {
        self.info.occs.push(Occ { name: name.to_string(), pos: pos.0, kind: OccKind::Use, what });
    }
    fn def(&mut self, name: &str, pos: AirPosLike, what: &'static str) {
        self.info.occs.push(Occ { name: name.to_string(), pos: pos.0, kind: OccKind::Def, what });
    }
    fn lambda(&mut self, l: &LambdaAST<'_>, pos: AirPosLike) {
        if let LambdaAST::ValuePath(accessors) = l {
            for a in accessors.iter() {
                match a {
                    ValueAccessor::FieldAccessByScalar { scalar_name } => self.use_(scalar_name, pos, "lens scalar accessor"),
                    ValueAccessor::Error => self.info.error_nodes.push("ValueAccessor::Error"),
                    _ => {}
                }
            }
        }
    }
    fn opt_lambda(&mut self, l: &Option<LambdaAST<'_>>, pos: AirPosLike) {
        if let Some(l) = l {
            self.lambda(l, pos);
        }
    }
    fn scalar(&mut self, s: &Scalar<'_>, what: &'static str) {
        self.use_(s.name, p(s.position), what);
    }
    fn scalar_wl(&mut self, s: &ScalarWithLambda<'_>, what: &'static str) {
        self.use_(s.name, p(s.position), what);
        self.lambda(&s.lambda, p(s.position));
    }
    fn canon_wl(&mut self, s: &CanonStreamWithLambda<'_>, what: &'static str) {
        self.use_(s.name, p(s.position), what);
        self.lambda(&s.lambda, p(s.position));
    }
    fn canon_map_wl(&mut self, s: &CanonStreamMapWithLambda<'_>, what: &'static str) {
        self.use_(s.name, p(s.position), what);
        self.lambda(&s.lambda, p(s.position));
    }
    fn peer(&mut self, v: &ResolvableToPeerIdVariable<'_>) {
        use ResolvableToPeerIdVariable::*;
        match v {
            InitPeerId | Literal(_) => {}
            Scalar(s) => self.scalar(s, "peer"),
            ScalarWithLambda(s) => self.scalar_wl(s, "peer"),
            CanonStreamWithLambda(s) => self.canon_wl(s, "peer"),
            CanonStreamMapWithLambda(s) => self.canon_map_wl(s, "peer"),
        }
    }
    fn string(&mut self, v: &ResolvableToStringVariable<'_>) {
        use ResolvableToStringVariable::*;
        match v {
            Literal(_) => {}
            Scalar(s) => self.scalar(s, "triplet part"),
            ScalarWithLambda(s) => self.scalar_wl(s, "triplet part"),
            CanonStreamWithLambda(s) => self.canon_wl(s, "triplet part"),
            CanonStreamMapWithLambda(s) => self.canon_map_wl(s, "triplet part"),
        }
    }
    fn value(&mut self, v: &ImmutableValue<'_>, what: &'static str) {
        use ImmutableValue::*;
        match v {
            InitPeerId | Timestamp | TTL | Literal(_) | Number(_) | Boolean(_) | EmptyArray => {}
            Error(e) => {
                if let Some(LambdaAST::ValuePath(acc)) = &e.lens {
                    if acc.iter().any(|a| matches!(a, ValueAccessor::Error)) {
                        self.info.error_nodes.push("ValueAccessor::Error");
                    }
                }
            }
            LastError(l) => {
                if let Some(LambdaAST::ValuePath(acc)) = l {
                    if acc.iter().any(|a| matches!(a, ValueAccessor::Error)) {
                        self.info.error_nodes.push("ValueAccessor::Error");
                    }
                }
            }
            Variable(var) => match var {
                ImmutableVariable::Scalar(s) => self.scalar(s, what),
                ImmutableVariable::CanonStream(s) => self.use_(s.name, p(s.position), what),
                ImmutableVariable::CanonStreamMap(s) => self.use_(s.name, p(s.position), what),
            },
            VariableWithLambda(var) => match var {
                ImmutableVariableWithLambda::Scalar(s) => self.scalar_wl(s, what),
                ImmutableVariableWithLambda::CanonStream(s) => self.canon_wl(s, what),
                ImmutableVariableWithLambda::CanonStreamMap(s) => self.canon_map_wl(s, what),
            },
        }
    }
    fn ap_arg(&mut self, a: &ApArgument<'_>) {
        use ApArgument::*;
        match a {
            InitPeerId | Timestamp | TTL | Literal(_) | Number(_) | Boolean(_) | EmptyArray => {}
            Error(e) => {
                let _ = e;
            }
            LastError(l) => {
                let _ = l;
            }
            Scalar(s) => self.scalar(s, "ap source"),
            ScalarWithLambda(s) => self.scalar_wl(s, "ap source"),
            CanonStream(s) => self.use_(s.name, p(s.position), "ap source"),
            CanonStreamMap(s) => self.use_(s.name, p(s.position), "ap source"),
            CanonStreamWithLambda(s) => self.canon_wl(s, "ap source"),
            CanonStreamMapWithLambda(s) => self.canon_map_wl(s, "ap source"),
        }
    }

    fn fold_body(&mut self, iterator: &Scalar<'_>, body: &Instruction<'_>, last: &Option<std::rc::Rc<Instruction<'_>>>) {
        self.def(iterator.name, p(iterator.position), "fold iterator");
        self.iters.push(iterator.name.to_string());
        self.depth += 1;
        self.info.max_scope_depth = self.info.max_scope_depth.max(self.depth);
        self.instr(body);
        if let Some(l) = last {
            self.instr(l);
        }
        self.depth -= 1;
        self.iters.pop();
    }

    fn instr(&mut self, i: &Instruction<'_>) {
        self.info.instructions += 1;
        match i {
            Instruction::Call(c) => {
                self.peer(&c.triplet.peer_id);
                self.string(&c.triplet.service_id);
                self.string(&c.triplet.function_name);
                for a in c.args.iter() {
                    self.value(a, "call argument");
                }
                match &c.output {
                    CallOutputValue::Scalar(s) => self.def(s.name, p(s.position), "call output"),
                    CallOutputValue::Stream(s) => self.def(s.name, p(s.position), "call output"),
                    CallOutputValue::None => {}
                }
            }
            Instruction::Ap(a) => {
                self.ap_arg(&a.argument);
                match &a.result {
                    ApResult::Scalar(s) => self.def(s.name, p(s.position), "ap result"),
                    ApResult::Stream(s) => self.def(s.name, p(s.position), "ap result"),
                }
            }
            Instruction::ApMap(a) => {
                match &a.key {
                    StreamMapKeyClause::Literal(_) | StreamMapKeyClause::Int(_) => {}
                    StreamMapKeyClause::Scalar(s) => self.scalar(s, "map key"),
                    StreamMapKeyClause::ScalarWithLambda(s) => self.scalar_wl(s, "map key"),
                    StreamMapKeyClause::CanonStreamWithLambda(s) => self.canon_wl(s, "map key"),
                }
                self.ap_arg(&a.value);
                self.def(a.map.name, p(a.map.position), "ap map result");
            }
            Instruction::Canon(c) => {
                self.peer(&c.peer_id);
                // the source stream of canon may be undefined (docs: empty stream)
                self.def(c.canon_stream.name, p(c.canon_stream.position), "canon output");
            }
            Instruction::CanonMap(c) => {
                self.peer(&c.peer_id);
                self.def(c.canon_stream_map.name, p(c.canon_stream_map.position), "canon output");
            }
            Instruction::CanonStreamMapScalar(c) => {
                self.peer(&c.peer_id);
                self.def(c.scalar.name, p(c.scalar.position), "canon output");
            }
            Instruction::Seq(s) => {
                self.instr(&s.0);
                self.instr(&s.1);
            }
            Instruction::Par(s) => {
                self.instr(&s.0);
                self.instr(&s.1);
            }
            Instruction::Xor(s) => {
                self.instr(&s.0);
                self.instr(&s.1);
            }
            Instruction::Match(m) => {
                self.value(&m.left_value, "match operand");
                self.value(&m.right_value, "match operand");
                self.instr(&m.instruction);
            }
            Instruction::MisMatch(m) => {
                self.value(&m.left_value, "match operand");
                self.value(&m.right_value, "match operand");
                self.instr(&m.instruction);
            }
            Instruction::Fail(f) => match &**f {
                Fail::Scalar(s) => self.scalar(s, "fail operand"),
                Fail::ScalarWithLambda(s) => self.scalar_wl(s, "fail operand"),
                Fail::CanonStreamWithLambda(s) => self.canon_wl(s, "fail operand"),
                Fail::Literal { .. } | Fail::LastError => {}
                Fail::Error => self.info.error_nodes.push("Fail::Error"),
            },
            Instruction::FoldScalar(f) => {
                match &f.iterable {
                    FoldScalarIterable::Scalar(s) => self.scalar(s, "fold iterable"),
                    FoldScalarIterable::ScalarWithLambda(s) => self.scalar_wl(s, "fold iterable"),
                    FoldScalarIterable::CanonStream(s) => self.use_(s.name, p(s.position), "fold iterable"),
                    FoldScalarIterable::CanonStreamMap(s) => self.use_(s.name, p(s.position), "fold iterable"),
                    FoldScalarIterable::CanonStreamMapWithLambda(s) => self.canon_map_wl(s, "fold iterable"),
                    FoldScalarIterable::EmptyArray => {}
                }
                self.fold_body(&f.iterator, &f.instruction, &f.last_instruction);
            }
            Instruction::FoldStream(f) => {
                self.use_(f.iterable.name, p(f.iterable.position), "fold iterable");
                self.fold_body(&f.iterator, &f.instruction, &f.last_instruction);
            }
            Instruction::FoldStreamMap(f) => {
                self.use_(f.iterable.name, p(f.iterable.position), "fold iterable");
                self.fold_body(&f.iterator, &f.instruction, &f.last_instruction);
            }
            Instruction::Never(_) | Instruction::Null(_) => {}
            Instruction::New(n) => {
                let (name, pos) = match &n.argument {
                    NewArgument::Scalar(s) => (s.name, s.position),
                    NewArgument::Stream(s) => (s.name, s.position),
                    NewArgument::StreamMap(s) => (s.name, s.position),
                    NewArgument::CanonStream(s) => (s.name, s.position),
                    NewArgument::CanonStreamMap(s) => (s.name, s.position),
                };
                self.def(name, p(pos), "new argument");
                self.depth += 1;
                self.info.max_scope_depth = self.info.max_scope_depth.max(self.depth);
                self.instr(&n.instruction);
                self.depth -= 1;
            }
            Instruction::Next(n) => {
                let enclosed = self.iters.iter().any(|i| i == n.iterator.name);
                self.info.nexts.push((n.iterator.name.to_string(), usize::from(n.iterator.position), enclosed));
            }
            Instruction::Error => self.info.error_nodes.push("Instruction::Error"),
        }
    }
}

#[derive(Clone, Copy)]
struct AirPosLike(usize);

fn p(pos: air_parser::AirPos) -> AirPosLike {
    AirPosLike(usize::from(pos))
}

pub fn analyse(root: &Instruction<'_>) -> ScopeInfo {
    let mut w = W { info: ScopeInfo::default(), iters: vec![], depth: 0 };
    w.instr(root);
    w.info
}

/// violations of the property in an accepted tree: (kind, description)
pub fn violations(info: &ScopeInfo) -> Vec<(String, String)> {
    let mut out = vec![];
    for e in &info.error_nodes {
        out.push(("error-node".to_string(), format!("accepted tree contains {}", e)));
    }
    for o in info.occs.iter().filter(|o| o.kind == OccKind::Use) {
        let defined = info.occs.iter().any(|d| d.kind == OccKind::Def && d.name == o.name && d.pos < o.pos);
        if !defined {
            // the operand of `fail` is a class of its own (known finding K11 of C23: never validated)
            let kind = if o.what == "fail operand" { "use-before-definition:fail-operand" } else { "use-before-definition" };
            out.push((kind.to_string(), format!("variable {} used as {} at offset {} has no earlier definition", o.name, o.what, o.pos)));
        }
    }
    for (name, pos, enclosed) in &info.nexts {
        if !enclosed {
            out.push(("next-outside-fold".to_string(), format!("next {} at offset {} is not inside a fold with that iterator", name, pos)));
        }
    }
    // the known class last: it must not hide another violation of the same script
    out.sort_by_key(|(k, _)| k.ends_with(":fail-operand"));
    out
}

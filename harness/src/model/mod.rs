pub mod cid;
pub mod data;
pub mod show;
pub mod tracewf;
pub mod scope;
pub mod eval;

//! Reference evaluator: the *sequential reading* of a script in the C16 fragment (plus canon
//! of streams filled by calls/aps for C17/C19), written from docs/AIR.md and docs/fold.md:
//! scalars in scopes, `seq` continues iff the left part completed, `par` evaluates both
//! branches and completes iff one of them completes, `xor` runs its right branch iff the left
//! one raised a catchable error, `never` is incomplete, a read of an undefined variable waits
//! (incomplete), `fold` recursion through `next`, lenses by plain JSON navigation.  Every value
//! carries its provenance (peer, service, function, lens).  Calls are answered by the service
//! model of the case.  Independent of `air/src`.

use crate::script::*;
use serde_json::{json, Value};
use std::collections::BTreeMap;

#[derive(Clone, Debug, PartialEq, Eq, PartialOrd, Ord)]
pub struct Tet {
    pub peer: String,
    pub service: String,
    pub function: String,
    pub lens: String,
}

impl Tet {
    pub fn literal(init_peer: &str) -> Tet {
        Tet { peer: init_peer.to_string(), service: String::new(), function: String::new(), lens: String::new() }
    }
    pub fn with_lens(&self, more: &str) -> Tet {
        let mut t = self.clone();
        t.lens.push_str(more);
        t
    }
}

#[derive(Clone, Debug, PartialEq)]
pub struct Val {
    pub v: Value,
    /// one tetraplet for a scalar; one per element for a canon stream passed whole
    pub tets: Vec<Tet>,
}

#[derive(Clone, Debug, PartialEq)]
pub enum Status {
    Complete,
    Incomplete,
    /// catchable error (code class, message is not modelled)
    Error(String),
}

#[derive(Clone, Debug, PartialEq)]
pub struct CallRec {
    pub peer: String,
    pub service: String,
    pub function: String,
    pub args: Vec<Value>,
    pub tetraplets: Vec<Vec<Tet>>,
    /// nesting info for classification
    pub in_fold: bool,
    pub failed: bool,
}

#[derive(Clone, Debug, Default)]
pub struct RefStats {
    pub xor_right_taken: usize,
    pub match_false: usize,
    pub max_fold_iters: usize,
    pub joins: usize,
    pub lens_errors: usize,
    pub uncaught_error: Option<String>,
    pub unsupported: Vec<String>,
    pub canons: usize,
    pub variable_targets: usize,
    pub nonempty_lens_args: usize,
    /// a stream holds two equal values of different provenance: which of them a canon index
    /// selects depends on the order the canonicalizing peer saw them in, and the value does not tell
    pub equal_stream_values_of_different_provenance: bool,
}

#[derive(Clone, Debug)]
pub struct CanonRec {
    pub peer: String,
    pub stream: String,
    pub dst: String,
}

#[derive(Clone, Debug)]
pub struct RefResult {
    pub calls: Vec<CallRec>,
    pub canons: Vec<CanonRec>,
    pub status: Status,
    pub stats: RefStats,
}

struct Scope {
    vars: BTreeMap<String, Option<Val>>, // None = restricted by `new`, not assigned yet
    /// Some(name) for the scope opened by `new name`, None for the top level and fold levels
    restricts: Option<String>,
}

struct FoldFrame {
    iter: String,
    elems: Vec<Val>,
    idx: usize,
    body: I,
    last: Option<I>,
}

pub struct Evaluator<'a> {
    pub init_peer: String,
    pub services: &'a BTreeMap<String, Ret>,
    scopes: Vec<Scope>,
    folds: Vec<FoldFrame>,
    /// stream name -> appended values in order (sequential reading)
    streams: BTreeMap<String, Vec<Val>>,
    canons: BTreeMap<String, Vec<Val>>,
    /// canon name -> peer that canonicalized it
    canon_peers: BTreeMap<String, String>,
    pub calls: Vec<CallRec>,
    pub canon_recs: Vec<CanonRec>,
    pub stats: RefStats,
    steps: usize,
}

enum Resolve {
    Ok(Val),
    /// undefined variable: waits
    Wait,
    Err(String),
}

pub fn navigate(v: &Value, step: &LensStep, env: &dyn Fn(&str) -> Option<Value>) -> Result<Value, String> {
    match step {
        LensStep::Field(f) => match v {
            Value::Object(o) => o.get(f).cloned().ok_or_else(|| format!("no field {}", f)),
            _ => Err(format!("field {} of a non-object", f)),
        },
        LensStep::Idx(i) => match v {
            Value::Array(a) => a.get(*i as usize).cloned().ok_or_else(|| format!("index {} out of range", i)),
            _ => Err(format!("index {} of a non-array", i)),
        },
        LensStep::ByScalar(name) => {
            let key = env(name).ok_or_else(|| "WAIT".to_string())?;
            match key {
                Value::String(s) => navigate(v, &LensStep::Field(s), env),
                Value::Number(n) => match n.as_u64() {
                    Some(i) if i <= u32::MAX as u64 => navigate(v, &LensStep::Idx(i as u32), env),
                    _ => Err("accessor number is not a valid index".into()),
                },
                _ => Err("accessor is neither string nor number".into()),
            }
        }
    }
}

impl<'a> Evaluator<'a> {
    pub fn new(init_peer: &str, services: &'a BTreeMap<String, Ret>) -> Self {
        Evaluator {
            init_peer: init_peer.to_string(),
            services,
            scopes: vec![Scope { vars: BTreeMap::new(), restricts: None }],
            folds: vec![],
            streams: BTreeMap::new(),
            canons: BTreeMap::new(),
            canon_peers: BTreeMap::new(),
            calls: vec![],
            canon_recs: vec![],
            stats: RefStats::default(),
            steps: 0,
        }
    }

    fn lookup(&self, name: &str) -> Option<Val> {
        // fold iterators first (innermost)
        for f in self.folds.iter().rev() {
            if f.iter == name {
                return f.elems.get(f.idx).cloned();
            }
        }
        for s in self.scopes.iter().rev() {
            if let Some(v) = s.vars.get(name) {
                return v.clone();
            }
        }
        None
    }

    fn assign(&mut self, name: &str, v: Val) {
        // `new x` restricts only x: an assignment goes to the innermost scope that either
        // restricts this very name or is a fold-level scope (variables live per fold depth)
        for s in self.scopes.iter_mut().rev() {
            match &s.restricts {
                Some(n) if n == name => {
                    s.vars.insert(name.to_string(), Some(v));
                    return;
                }
                Some(_) => continue,
                None => {
                    s.vars.insert(name.to_string(), Some(v));
                    return;
                }
            }
        }
    }

    fn resolve(&mut self, a: &Arg) -> Resolve {
        let lit = |v: Value, me: &Self| Resolve::Ok(Val { v, tets: vec![Tet::literal(&me.init_peer)] });
        match a {
            Arg::Str(s) => lit(json!(s), self),
            Arg::Num(n) => lit(json!(n), self),
            Arg::Float(t) => lit(serde_json::from_str(t).unwrap_or(Value::Null), self),
            Arg::Bool(b) => lit(json!(b), self),
            Arg::EmptyArr => lit(json!([]), self),
            Arg::InitPeer => lit(json!(self.init_peer), self),
            Arg::Timestamp | Arg::Ttl | Arg::LastError(_) | Arg::Error(_) => {
                self.stats.unsupported.push(format!("{}", a));
                Resolve::Wait
            }
            Arg::Var { name, lens, length } => {
                if name.starts_with('#') {
                    return self.resolve_canon(name, lens, *length);
                }
                let base = match self.lookup(name) {
                    Some(v) => v,
                    None => return Resolve::Wait,
                };
                if *length {
                    return match &base.v {
                        Value::Array(arr) => Resolve::Ok(Val { v: json!(arr.len()), tets: vec![Tet { peer: String::new(), service: String::new(), function: String::new(), lens: ".length".into() }] }),
                        _ => Resolve::Err("length of a non-array".into()),
                    };
                }
                if lens.is_empty() {
                    return Resolve::Ok(base);
                }
                let mut cur = base.v.clone();
                for st in lens {
                    let me = &*self;
                    let env = |n: &str| me.lookup(n).map(|x| x.v);
                    match navigate(&cur, st, &env) {
                        Ok(v) => cur = v,
                        Err(e) if e == "WAIT" => return Resolve::Wait,
                        Err(e) => return Resolve::Err(e),
                    }
                }
                self.stats.nonempty_lens_args += 1;
                let t = base.tets.first().cloned().unwrap_or_else(|| Tet::literal(&self.init_peer)).with_lens(&lens_text(lens));
                Resolve::Ok(Val { v: cur, tets: vec![t] })
            }
        }
    }

    fn resolve_canon(&mut self, name: &str, lens: &[LensStep], length: bool) -> Resolve {
        let elems = match self.canons.get(name) {
            Some(e) => e.clone(),
            None => return Resolve::Wait,
        };
        if name.starts_with("#%") {
            self.stats.unsupported.push(format!("canon map {}", name));
            return Resolve::Wait;
        }
        if length {
            return Resolve::Ok(Val { v: json!(elems.len()), tets: vec![Tet { peer: String::new(), service: String::new(), function: String::new(), lens: ".length".into() }] });
        }
        if lens.is_empty() {
            let v = Value::Array(elems.iter().map(|e| e.v.clone()).collect());
            let tets = elems.iter().map(|e| e.tets.first().cloned().unwrap_or_else(|| Tet::literal(&self.init_peer))).collect();
            return Resolve::Ok(Val { v, tets });
        }
        // first accessor selects the element; the rest navigates inside it
        let first = &lens[0];
        let idx = match first {
            LensStep::Idx(i) => *i as usize,
            LensStep::ByScalar(n) => match self.lookup(n).map(|x| x.v) {
                Some(Value::Number(k)) => match k.as_u64() {
                    Some(i) => i as usize,
                    None => return Resolve::Err("bad index".into()),
                },
                Some(_) => return Resolve::Err("canon stream indexed by a non-number".into()),
                None => return Resolve::Wait,
            },
            LensStep::Field(_) => return Resolve::Err("field access on a canon stream".into()),
        };
        let el = match elems.get(idx) {
            Some(e) => e.clone(),
            None => return Resolve::Err("canon index out of range".into()),
        };
        let mut cur = el.v.clone();
        for st in &lens[1..] {
            let me = &*self;
            let env = |n: &str| me.lookup(n).map(|x| x.v);
            match navigate(&cur, st, &env) {
                Ok(v) => cur = v,
                Err(e) if e == "WAIT" => return Resolve::Wait,
                Err(e) => return Resolve::Err(e),
            }
        }
        // the element keeps its own tetraplet; the lens written after the index is appended
        let rest = if lens.len() > 1 { lens_text(&lens[1..]) } else { String::new() };
        let t = el.tets.first().cloned().unwrap_or_else(|| Tet::literal(&self.init_peer)).with_lens(&rest);
        Resolve::Ok(Val { v: cur, tets: vec![t] })
    }

    fn resolve_string(&mut self, a: &Arg) -> Result<Option<String>, String> {
        match self.resolve(a) {
            Resolve::Ok(v) => match v.v {
                Value::String(s) => Ok(Some(s)),
                other => Err(format!("triplet part is not a string: {}", other)),
            },
            Resolve::Wait => Ok(None),
            Resolve::Err(e) => Err(e),
        }
    }

    pub fn run(&mut self, i: &I) -> Status {
        self.steps += 1;
        if self.steps > 200_000 {
            self.stats.unsupported.push("step bound".into());
            return Status::Incomplete;
        }
        match i {
            I::Null => Status::Complete,
            I::Never => Status::Incomplete,
            I::Seq(a, b) => match self.run(a) {
                Status::Complete => self.run(b),
                s => s,
            },
            I::Par(a, b) => {
                let sa = self.run(a);
                if let Status::Error(e) = &sa {
                    // outside the fragment: an error escaping a par branch
                    self.stats.unsupported.push(format!("error escapes a par branch: {}", e));
                    return sa;
                }
                let sb = self.run(b);
                if let Status::Error(e) = &sb {
                    self.stats.unsupported.push(format!("error escapes a par branch: {}", e));
                    return sb;
                }
                if sa == Status::Complete || sb == Status::Complete {
                    Status::Complete
                } else {
                    Status::Incomplete
                }
            }
            I::Xor(a, b) => match self.run(a) {
                Status::Error(_) => {
                    self.stats.xor_right_taken += 1;
                    self.run(b)
                }
                s => s,
            },
            I::Match(a, b, body) | I::Mismatch(a, b, body) => {
                let neg = matches!(i, I::Mismatch(..));
                let (va, vb) = match (self.resolve(a), self.resolve(b)) {
                    (Resolve::Ok(x), Resolve::Ok(y)) => (x, y),
                    (Resolve::Err(e), _) | (_, Resolve::Err(e)) => {
                        self.stats.lens_errors += 1;
                        return Status::Error(format!("lens: {}", e));
                    }
                    _ => {
                        self.stats.joins += 1;
                        return Status::Incomplete;
                    }
                };
                let eq = va.v == vb.v;
                if eq != neg {
                    self.run(body)
                } else {
                    self.stats.match_false += 1;
                    Status::Error(if neg { "mismatch".into() } else { "match".into() })
                }
            }
            I::Fail(FailKind::Lit(c, _)) => Status::Error(format!("fail {}", c)),
            I::Fail(FailKind::Arg(a)) => match self.resolve(a) {
                Resolve::Wait => {
                    self.stats.joins += 1;
                    Status::Incomplete
                }
                _ => Status::Error("fail with a value".into()),
            },
            I::Ap { src, dst } => {
                let v = match self.resolve(src) {
                    Resolve::Ok(v) => v,
                    Resolve::Wait => {
                        self.stats.joins += 1;
                        return Status::Incomplete;
                    }
                    Resolve::Err(e) => {
                        self.stats.lens_errors += 1;
                        return Status::Error(format!("lens: {}", e));
                    }
                };
                // a whole canon stream copied into a scalar or stream becomes one value produced by
                // the canonicalizing peer (tetraplet: that peer, empty service and function)
                let v = match src {
                    Arg::Var { name, lens, length: false } if name.starts_with('#') && lens.is_empty() => {
                        let peer = self.canon_peers.get(name).cloned().unwrap_or_default();
                        Val { v: v.v, tets: vec![Tet { peer, service: String::new(), function: String::new(), lens: String::new() }] }
                    }
                    _ => v,
                };
                if dst.starts_with('$') {
                    self.streams.entry(dst.clone()).or_default().push(v);
                } else {
                    self.assign(dst, v);
                }
                Status::Complete
            }
            I::ApMap { .. } => {
                self.stats.unsupported.push("ap into a map".into());
                Status::Complete
            }
            I::New { var, body } => {
                if var.starts_with('$') || var.starts_with('%') || var.starts_with('#') {
                    self.stats.unsupported.push(format!("new {}", var));
                }
                self.scopes.push(Scope { vars: BTreeMap::from([(var.clone(), None)]), restricts: Some(var.clone()) });
                let s = self.run(body);
                self.scopes.pop();
                s
            }
            I::Canon { peer, src, dst } => {
                let p = match self.resolve_string(peer) {
                    Ok(Some(p)) => p,
                    Ok(None) => {
                        self.stats.joins += 1;
                        return Status::Incomplete;
                    }
                    Err(e) => return Status::Error(e),
                };
                if !src.starts_with('$') || !dst.starts_with('#') || dst.starts_with("#%") {
                    self.stats.unsupported.push(format!("canon {} {}", src, dst));
                    return Status::Complete;
                }
                self.stats.canons += 1;
                let elems = self.streams.get(src).cloned().unwrap_or_default();
                self.canons.insert(dst.clone(), elems);
                self.canon_peers.insert(dst.clone(), p.clone());
                self.canon_recs.push(CanonRec { peer: p, stream: src.clone(), dst: dst.clone() });
                Status::Complete
            }
            I::Call { peer, svc, func, args, out } => {
                let mut waiting = false;
                let mut parts: Vec<String> = vec![];
                for a in [peer, svc, func] {
                    match self.resolve_string(a) {
                        Ok(Some(s)) => parts.push(s),
                        Ok(None) => waiting = true,
                        Err(e) => {
                            self.stats.lens_errors += 1;
                            return Status::Error(e);
                        }
                    }
                }
                let mut vals = vec![];
                for a in args {
                    match self.resolve(a) {
                        Resolve::Ok(v) => vals.push(v),
                        Resolve::Wait => waiting = true,
                        Resolve::Err(e) => {
                            self.stats.lens_errors += 1;
                            return Status::Error(format!("lens: {}", e));
                        }
                    }
                }
                if waiting {
                    self.stats.joins += 1;
                    return Status::Incomplete;
                }
                if matches!(peer, Arg::Var { .. }) {
                    self.stats.variable_targets += 1;
                }
                let argv: Vec<Value> = vals.iter().map(|v| v.v.clone()).collect();
                let spec = self.services.get(&parts[2]).cloned().unwrap_or(Ret::Str);
                let (rc, text) = serve(&spec, &parts[2], &argv);
                let failed = rc != 0 || serde_json::from_str::<Value>(&text).is_err();
                self.calls.push(CallRec {
                    peer: parts[0].clone(),
                    service: parts[1].clone(),
                    function: parts[2].clone(),
                    args: argv,
                    tetraplets: vals.iter().map(|v| v.tets.clone()).collect(),
                    in_fold: !self.folds.is_empty(),
                    failed,
                });
                if failed {
                    return Status::Error("service error".into());
                }
                let v: Value = serde_json::from_str(&text).unwrap_or(Value::Null);
                let val = Val { v, tets: vec![Tet { peer: parts[0].clone(), service: parts[1].clone(), function: parts[2].clone(), lens: String::new() }] };
                match out {
                    Some(o) if o.starts_with('$') => self.streams.entry(o.clone()).or_default().push(val),
                    Some(o) => self.assign(o, val),
                    None => {}
                }
                Status::Complete
            }
            I::Fold { iterable, iter, body, last } => {
                if let Arg::Var { name, .. } = iterable {
                    if name.starts_with('$') || name.starts_with('%') || name.starts_with("#%") {
                        self.stats.unsupported.push(format!("fold over {}", name));
                        return Status::Incomplete;
                    }
                }
                let base = match self.resolve(iterable) {
                    Resolve::Ok(v) => v,
                    Resolve::Wait => {
                        self.stats.joins += 1;
                        return Status::Incomplete;
                    }
                    Resolve::Err(e) => {
                        self.stats.lens_errors += 1;
                        return Status::Error(format!("lens: {}", e));
                    }
                };
                let arr = match &base.v {
                    Value::Array(a) => a.clone(),
                    _ => return Status::Error("fold over a non-array".into()),
                };
                if arr.is_empty() {
                    return Status::Complete;
                }
                let elems: Vec<Val> = if base.tets.len() == arr.len() && matches!(iterable, Arg::Var { name, lens, .. } if name.starts_with('#') && lens.is_empty()) {
                    // canon stream: every element keeps its own tetraplet
                    arr.iter().zip(base.tets.iter()).map(|(v, t)| Val { v: v.clone(), tets: vec![t.clone()] }).collect()
                } else {
                    let t0 = base.tets.first().cloned().unwrap_or_else(|| Tet::literal(&self.init_peer));
                    arr.iter().enumerate().map(|(k, v)| Val { v: v.clone(), tets: vec![t0.with_lens(&format!(".$.[{}]", k))] }).collect()
                };
                self.stats.max_fold_iters = self.stats.max_fold_iters.max(elems.len());
                self.folds.push(FoldFrame { iter: iter.clone(), elems, idx: 0, body: (**body).clone(), last: last.as_ref().map(|l| (**l).clone()) });
                self.scopes.push(Scope { vars: BTreeMap::new(), restricts: None });
                let s = self.run(body);
                self.scopes.pop();
                self.folds.pop();
                s
            }
            I::Next(it) => {
                let pos = match self.folds.iter().rposition(|f| f.iter == *it) {
                    Some(p) => p,
                    None => {
                        self.stats.unsupported.push("next outside fold".into());
                        return Status::Incomplete;
                    }
                };
                let (has_next, body, last) = {
                    let f = &self.folds[pos];
                    (f.idx + 1 < f.elems.len(), f.body.clone(), f.last.clone())
                };
                if !has_next {
                    return match last {
                        Some(l) => self.run(&l),
                        None => Status::Complete,
                    };
                }
                self.folds[pos].idx += 1;
                self.scopes.push(Scope { vars: BTreeMap::new(), restricts: None });
                let s = self.run(&body);
                self.scopes.pop();
                self.folds[pos].idx -= 1;
                s
            }
        }
    }
}

pub fn evaluate(script: &crate::gen::Script) -> RefResult {
    let mut ev = Evaluator::new(&script.init_peer().id, &script.services);
    let status = ev.run(&script.instr);
    if let Status::Error(e) = &status {
        ev.stats.uncaught_error = Some(e.clone());
    }
    for vals in ev.streams.values() {
        for (i, a) in vals.iter().enumerate() {
            if vals[i + 1..].iter().any(|b| b.v == a.v && b.tets != a.tets) {
                ev.stats.equal_stream_values_of_different_provenance = true;
            }
        }
    }
    RefResult { calls: ev.calls, canons: ev.canon_recs, status, stats: ev.stats }
}

//! Independent checkers over decoded interpreter data: knowledge multisets, CID-store
//! closure, signature verification, written from the property text (DESIGN §3.5).

use super::cid::cid_of;
use air_interpreter_data::*;
use serde_json::Value;
use std::collections::BTreeMap;

pub type Knowledge = BTreeMap<(String, String), usize>;

/// (kind, cid) multiset of executed/failed call results and executed canons.
pub fn knowledge(d: &InterpreterData) -> Knowledge {
    let mut k = Knowledge::new();
    for st in d.trace.iter() {
        let e = match st {
            ExecutedState::Call(CallResult::Executed(ValueRef::Scalar(c))) => ("exec".to_string(), c.get_inner().to_string()),
            ExecutedState::Call(CallResult::Executed(ValueRef::Stream { cid, .. })) => ("exec".to_string(), cid.get_inner().to_string()),
            ExecutedState::Call(CallResult::Executed(ValueRef::Unused(c))) => ("unused".to_string(), c.get_inner().to_string()),
            ExecutedState::Call(CallResult::Failed(c)) => ("fail".to_string(), c.get_inner().to_string()),
            ExecutedState::Canon(CanonResult::Executed(c)) => ("canon".to_string(), c.get_inner().to_string()),
            _ => continue,
        };
        *k.entry(e).or_insert(0) += 1;
    }
    k
}

fn js(s: &str) -> String {
    serde_json::to_string(s).expect("string to json")
}

/// canonical JSON texts written by hand from the struct definitions
pub fn tetraplet_json(t: &polyplets::SecurityTetraplet) -> String {
    format!(
        "{{\"peer_pk\":{},\"service_id\":{},\"function_name\":{},\"lens\":{}}}",
        js(&t.peer_pk),
        js(&t.service_id),
        js(&t.function_name),
        js(&t.lens)
    )
}

pub fn service_result_json(a: &ServiceResultCidAggregate) -> String {
    format!(
        "{{\"value_cid\":{},\"argument_hash\":{},\"tetraplet_cid\":{}}}",
        js(&a.value_cid.get_inner()),
        js(&a.argument_hash),
        js(&a.tetraplet_cid.get_inner())
    )
}

pub fn provenance_json(p: &Provenance) -> String {
    match p {
        Provenance::Literal => "{\"type\":\"literal\"}".to_string(),
        Provenance::ServiceResult { cid } => format!("{{\"type\":\"service_result\",\"cid\":{}}}", js(&cid.get_inner())),
        Provenance::Canon { cid } => format!("{{\"type\":\"canon\",\"cid\":{}}}", js(&cid.get_inner())),
    }
}

pub fn canon_element_json(e: &CanonCidAggregate) -> String {
    format!(
        "{{\"value\":{},\"tetraplet\":{},\"provenance\":{}}}",
        js(&e.value.get_inner()),
        js(&e.tetraplet.get_inner()),
        provenance_json(&e.provenance)
    )
}

pub fn canon_result_json(r: &CanonResultCidAggregate) -> String {
    let vals: Vec<String> = r.values.iter().map(|v| js(&v.get_inner())).collect();
    format!("{{\"tetraplet\":{},\"values\":[{}]}}", js(&r.tetraplet.get_inner()), vals.join(","))
}

/// raw value text of a stored value (RawValue serialises transparently as its raw string)
pub fn raw_text(v: &RawValue) -> String {
    match serde_json::to_value(v) {
        Ok(Value::String(s)) => s,
        _ => String::new(),
    }
}

/// CID-store closure: every item hashes to its key; every CID referenced from the trace
/// and from stored aggregates is present.
pub fn closure_check(d: &InterpreterData) -> Result<(), String> {
    let ci = &d.cid_info;
    for (cid, v) in ci.value_store.iter() {
        if cid_of(raw_text(v).as_bytes()) != *cid.get_inner() {
            return Err(format!("value store: {} does not hash to its key", cid.get_inner()));
        }
    }
    for (cid, v) in ci.tetraplet_store.iter() {
        if cid_of(tetraplet_json(v).as_bytes()) != *cid.get_inner() {
            return Err(format!("tetraplet store: {} does not hash to its key", cid.get_inner()));
        }
    }
    for (cid, v) in ci.service_result_store.iter() {
        if cid_of(service_result_json(v).as_bytes()) != *cid.get_inner() {
            return Err(format!("service result store: {} does not hash to its key", cid.get_inner()));
        }
        if ci.value_store.get(&v.value_cid).is_none() {
            return Err(format!("service result {}: missing value {}", cid.get_inner(), v.value_cid.get_inner()));
        }
        if ci.tetraplet_store.get(&v.tetraplet_cid).is_none() {
            return Err(format!("service result {}: missing tetraplet", cid.get_inner()));
        }
    }
    for (cid, v) in ci.canon_element_store.iter() {
        if cid_of(canon_element_json(v).as_bytes()) != *cid.get_inner() {
            return Err(format!("canon element store: {} does not hash to its key", cid.get_inner()));
        }
        if ci.value_store.get(&v.value).is_none() {
            return Err(format!("canon element {}: missing value {}", cid.get_inner(), v.value.get_inner()));
        }
        if ci.tetraplet_store.get(&v.tetraplet).is_none() {
            return Err(format!("canon element {}: missing tetraplet", cid.get_inner()));
        }
        match &v.provenance {
            Provenance::Literal => {}
            Provenance::ServiceResult { cid: c } => {
                if ci.service_result_store.get(c).is_none() {
                    return Err(format!("canon element {}: missing provenance service result {}", cid.get_inner(), c.get_inner()));
                }
            }
            Provenance::Canon { cid: c } => {
                if ci.canon_result_store.get(c).is_none() {
                    return Err(format!("canon element {}: missing provenance canon {}", cid.get_inner(), c.get_inner()));
                }
            }
        }
    }
    for (cid, v) in ci.canon_result_store.iter() {
        if cid_of(canon_result_json(v).as_bytes()) != *cid.get_inner() {
            return Err(format!("canon result store: {} does not hash to its key", cid.get_inner()));
        }
        if ci.tetraplet_store.get(&v.tetraplet).is_none() {
            return Err(format!("canon result {}: missing tetraplet", cid.get_inner()));
        }
        for e in &v.values {
            if ci.canon_element_store.get(e).is_none() {
                return Err(format!("canon result {}: missing element {}", cid.get_inner(), e.get_inner()));
            }
        }
    }
    for (pos, st) in d.trace.iter().enumerate() {
        match st {
            ExecutedState::Call(CallResult::Executed(ValueRef::Scalar(c)))
            | ExecutedState::Call(CallResult::Executed(ValueRef::Stream { cid: c, .. }))
            | ExecutedState::Call(CallResult::Failed(c)) => {
                if ci.service_result_store.get(c).is_none() {
                    return Err(format!("trace[{}]: missing service result {}", pos, c.get_inner()));
                }
            }
            ExecutedState::Canon(CanonResult::Executed(c)) => {
                if ci.canon_result_store.get(c).is_none() {
                    return Err(format!("trace[{}]: missing canon result {}", pos, c.get_inner()));
                }
            }
            _ => {}
        }
    }
    Ok(())
}

/// per peer id: sorted CIDs of the results attributed to it in this data
pub fn cids_by_peer(d: &InterpreterData) -> Result<BTreeMap<String, Vec<String>>, String> {
    let ci = &d.cid_info;
    let mut m: BTreeMap<String, Vec<String>> = BTreeMap::new();
    for st in d.trace.iter() {
        let (cid, tet) = match st {
            ExecutedState::Call(CallResult::Executed(ValueRef::Scalar(c)))
            | ExecutedState::Call(CallResult::Executed(ValueRef::Stream { cid: c, .. }))
            | ExecutedState::Call(CallResult::Failed(c)) => {
                let sr = ci.service_result_store.get(c).ok_or(format!("missing service result {}", c.get_inner()))?;
                (c.get_inner().to_string(), sr.tetraplet_cid.clone())
            }
            ExecutedState::Canon(CanonResult::Executed(c)) => {
                let cr = ci.canon_result_store.get(c).ok_or(format!("missing canon result {}", c.get_inner()))?;
                (c.get_inner().to_string(), cr.tetraplet.clone())
            }
            _ => continue,
        };
        let t = ci.tetraplet_store.get(&tet).ok_or(format!("missing tetraplet {}", tet.get_inner()))?;
        m.entry(t.peer_pk.clone()).or_default().push(cid);
    }
    for v in m.values_mut() {
        v.sort();
    }
    Ok(m)
}

fn borsh_str(s: &str, out: &mut Vec<u8>) {
    out.extend_from_slice(&(s.len() as u32).to_le_bytes());
    out.extend_from_slice(s.as_bytes());
}

/// borsh((Vec<str>, salt)) written by hand
pub fn signed_message(cids: &[String], salt: &str) -> Vec<u8> {
    let mut out = Vec::new();
    out.extend_from_slice(&(cids.len() as u32).to_le_bytes());
    for c in cids {
        borsh_str(c, &mut out);
    }
    borsh_str(salt, &mut out);
    out
}

/// signature store as (peer id -> (public key, signature bytes))
pub fn signatures(d: &InterpreterData) -> Result<BTreeMap<String, (fluence_keypair::PublicKey, Vec<u8>)>, String> {
    let j = serde_json::to_value(&d.signatures).map_err(|e| e.to_string())?;
    let mut m = BTreeMap::new();
    for (pk58, sig58) in j.as_object().cloned().unwrap_or_default() {
        let pkb = bs58::decode(&pk58).into_vec().map_err(|e| format!("pk b58: {e}"))?;
        let pk = fluence_keypair::PublicKey::decode(&pkb).map_err(|e| format!("pk decode: {e}"))?;
        let sig = bs58::decode(sig58.as_str().unwrap_or("")).into_vec().map_err(|e| format!("sig b58: {e}"))?;
        m.insert(pk.to_peer_id().to_string(), (pk, sig));
    }
    Ok(m)
}

/// Independent signature verification: every peer with results in the data has a
/// signature that verifies over its sorted CID list salted with the particle id.
pub fn signature_check(d: &InterpreterData, salt: &str) -> Result<usize, String> {
    let by_peer = cids_by_peer(d)?;
    let sigs = signatures(d)?;
    let mut n = 0;
    for (peer, cids) in &by_peer {
        let (pk, sig) = sigs.get(peer).ok_or(format!("peer {} has results but no signature", peer))?;
        let msg = signed_message(cids, salt);
        let signature = fluence_keypair::Signature::decode(sig.clone()).map_err(|e| format!("sig decode: {e}"))?;
        pk.verify(&msg, &signature).map_err(|e| format!("signature of {} over {} cids does not verify: {}", peer, cids.len(), e))?;
        n += 1;
    }
    Ok(n)
}

//! Entry functions of the libFuzzer targets (thorough tier).  Each decodes the bytes into
//! structured input and applies the same oracle as the corresponding property; an oracle
//! failure panics with a message starting with `VERIF-ORACLE`.  Interpreter panics are C01
//! violations in their own right.  No global state is kept between iterations (the parser's
//! thread-local LALRPOP tables are immutable).

use crate::core::*;
use crate::jsongen::canonical;
use crate::model::scope;
use air_interpreter_value::JValue;
use serde_json::Value;

/// C23 + C01: parser totality, no error nodes, independent scope walk; beautifier totality
pub fn fz_parse(data: &[u8]) {
    let text = String::from_utf8_lossy(data);
    if let Ok(tree) = air_parser::parse(&text) {
        let info = scope::analyse(&tree);
        let v = scope::violations(&info);
        if let Some((kind, msg)) = v.first() {
            // known finding K11 (undefined operand of fail is accepted) is tolerated, or every
            // campaign ends at its first rediscovery; VERIF_FUZZ_STRICT=1 reports it
            if !kind.ends_with(":fail-operand") || std::env::var("VERIF_FUZZ_STRICT").is_ok() {
                panic!("VERIF-ORACLE C23 accepted:{}: {}", kind, msg);
            }
        }
        let mut out: Vec<u8> = vec![];
        let _ = air_beautifier::Beautifier::new(&mut out).beautify_ast(&tree);
    }
    let _ = air_lambda_parser::parse(&text);
}

/// C26 + C25: JSON text differential against serde_json::Value; id equality across routes
pub fn fz_json(data: &[u8]) {
    let text = match std::str::from_utf8(data) {
        Ok(t) => t,
        Err(_) => return,
    };
    let a: Result<JValue, _> = serde_json::from_str(text);
    let b: Result<Value, _> = serde_json::from_str(text);
    match (a, b) {
        (Ok(j), Ok(v)) => {
            let back = serde_json::to_value(&j).expect("to_value");
            if back != v {
                panic!("VERIF-ORACLE C26 parse-differs: {} vs {}", back, v);
            }
            let shown = j.to_string();
            if shown != canonical(&v) {
                panic!("VERIF-ORACLE C26 display-differs: {} vs {}", shown, canonical(&v));
            }
            let again: JValue = serde_json::from_str(&shown).expect("display output parses");
            if again != j {
                panic!("VERIF-ORACLE C26 display-reparse-differs: {}", shown);
            }
            let cid = air_interpreter_cid::value_to_json_cid(&j).expect("cid").get_inner().to_string();
            let expect = crate::model::cid::cid_of(canonical(&v).as_bytes());
            if cid != expect {
                panic!("VERIF-ORACLE C25 id-differs: {} vs {}", cid, expect);
            }
            let c: air_interpreter_cid::CID<JValue> = air_interpreter_cid::CID::new(expect.as_str());
            if air_interpreter_cid::verify_value(&c, &j).is_err() {
                panic!("VERIF-ORACLE C25 own-id-rejected");
            }
        }
        (Err(_), Err(_)) => {}
        (Ok(j), Err(e)) => panic!("VERIF-ORACLE C26 accepts-invalid-json: {} ({})", j, e),
        (Err(e), Ok(v)) => panic!("VERIF-ORACLE C26 rejects-valid-json: {} ({})", v, e),
    }
}

fn fixed_history() -> &'static (Particle, PeerKey, Vec<u8>, Vec<u8>) {
    use std::sync::OnceLock;
    static H: OnceLock<(Particle, PeerKey, Vec<u8>, Vec<u8>)> = OnceLock::new();
    H.get_or_init(|| {
        // a small honest two-peer history: B holds prev data and receives A's data
        let peers = crate::gen::peers_for(3);
        let text = format!(
            "(seq (call \"{a}\" (\"s\" \"f1\") [] x) (seq (par (call \"{b}\" (\"s\" \"f2\") [x] $s) (call \"{a}\" (\"s\" \"f3\") [] $s)) (seq (canon \"{b}\" $s #can) (fold $s i (par (call \"{b}\" (\"s\" \"f4\") [i]) (next i)) (null)))))",
            a = peers[0].id,
            b = peers[1].id
        );
        let script = crate::gen::Script { instr: crate::script::I::Null, text, peers: peers.clone(), services: Default::default(), feat: Default::default() };
        let mut sim = crate::sim::Sim::new(&script);
        sim.drain();
        let particle = sim.particle.clone();
        let last_to_b = sim.log.iter().rev().find(|r| r.peer == 1 && !r.cur.is_empty()).expect("delivery to B");
        (particle, peers[1].clone(), last_to_b.prev.clone(), last_to_b.cur.clone())
    })
}

/// honest current data of the fixed history (seed corpus for fz_envelope)
pub fn envelope_seed() -> Vec<u8> {
    fixed_history().3.clone()
}

/// C01 + C02: arbitrary bytes as current data against honest prev data
pub fn fz_envelope(data: &[u8]) {
    let (particle, peer, prev, _) = fixed_history();
    let o = run(particle, peer, prev, data, &Default::default(), &Limits::default());
    if is_prev_returned(o.ret_code) {
        if o.data != *prev {
            panic!("VERIF-ORACLE C02 prev-not-returned: code {}", o.ret_code);
        }
        if !o.next_peers_raw.is_empty() {
            panic!("VERIF-ORACLE C02 next-peers-on-failure");
        }
    } else if is_new_data(o.ret_code) {
        if o.data.is_empty() || decode_data(&o.data).is_err() {
            panic!("VERIF-ORACLE C02 undecodable-new-data: code {}", o.ret_code);
        }
    } else {
        panic!("VERIF-ORACLE C02 code-outside-ranges: {}", o.ret_code);
    }
    let _ = air::to_human_readable_data(data.to_vec());
}

/// C01 + C02 (+ the acceptance side of C14): the bytes select 1..3 operations of the tamper catalog
/// (8 bytes each); the producer of the fixed history's data applies them, repairs the stores, re-signs
/// its own set, and the result is delivered to the honest receiver.  Coverage guidance drives the
/// catalog towards the interpreter's deeper paths instead of dying in validation.
pub fn fz_structured(data: &[u8]) {
    let (particle, peer, prev, cur) = fixed_history();
    let attacker = crate::gen::peers_for(3)[0].clone();
    let ops: Vec<[u16; 4]> = data
        .chunks_exact(8)
        .take(3)
        .map(|c| [u16::from_le_bytes([c[0], c[1]]), u16::from_le_bytes([c[2], c[3]]), u16::from_le_bytes([c[4], c[5]]), u16::from_le_bytes([c[6], c[7]])])
        .collect();
    if ops.is_empty() {
        return;
    }
    let (bytes, _rep) = match crate::tamper::tamper(cur, &attacker, &particle.particle_id, &ops, true) {
        Some(x) => x,
        None => return,
    };
    let o = run(particle, peer, prev, &bytes, &Default::default(), &Limits::default());
    if is_prev_returned(o.ret_code) {
        if o.data != *prev {
            panic!("VERIF-ORACLE C02 prev-not-returned: code {}", o.ret_code);
        }
    } else if is_new_data(o.ret_code) {
        match decode_data(&o.data) {
            Ok(d) => {
                if let Err(e) = crate::model::data::closure_check(&d.data) {
                    panic!("VERIF-ORACLE C14 victim-data-not-content-consistent: {}", e);
                }
            }
            Err(_) => panic!("VERIF-ORACLE C02 undecodable-new-data: code {}", o.ret_code),
        }
    } else {
        panic!("VERIF-ORACLE C02 code-outside-ranges: {}", o.ret_code);
    }
    let _ = air::to_human_readable_data(bytes);
}

/// C27: request / result payload decoding is total; what decodes re-encodes to the same value
pub fn fz_codec(data: &[u8]) {
    use air_interpreter_interface::{CallRequestsRepr, CallResults, CallResultsRepr, SerializedCallRequests, SerializedCallResults};
    use air_interpreter_sede::{FromSerialized, ToSerialized};
    let ser: SerializedCallResults = data.to_vec().into();
    if let Ok(m) = CallResultsRepr.deserialize(&ser) {
        let m: CallResults = m;
        let re = CallResultsRepr.serialize(&m).expect("serialize");
        let back: CallResults = CallResultsRepr.deserialize(&re).expect("re-decode");
        let same = back.len() == m.len() && m.iter().all(|(k, v)| back.get(k).map(|w| w.ret_code == v.ret_code && w.result == v.result).unwrap_or(false));
        if !same {
            panic!("VERIF-ORACLE C27 results-roundtrip");
        }
    }
    let ser: SerializedCallRequests = data.to_vec().into();
    if let Ok(m) = CallRequestsRepr.deserialize(&ser) {
        let m: air_interpreter_interface::CallRequests = m;
        let re = CallRequestsRepr.serialize(&m).expect("serialize");
        let back: air_interpreter_interface::CallRequests = CallRequestsRepr.deserialize(&re).expect("re-decode");
        if back.len() != m.len() {
            panic!("VERIF-ORACLE C27 requests-roundtrip");
        }
    }
    let _ = air_interpreter_data::InterpreterDataEnvelope::try_from_slice(data);
    let _ = air_interpreter_data::InterpreterDataEnvelope::try_get_versions(data);
    let _ = air_interpreter_data::InterpreterData::try_from_slice(data);
}

pub fn run_target(name: &str, data: &[u8]) -> bool {
    match name {
        "fz_parse" => fz_parse(data),
        "fz_json" => fz_json(data),
        "fz_envelope" => fz_envelope(data),
        "fz_codec" => fz_codec(data),
        "fz_structured" => fz_structured(data),
        _ => return false,
    }
    true
}

use aquaverif::engine::*;
use aquaverif::props;

macro_rules! dispatch {
    ($id:expr, $f:ident, $($arg:expr),*) => {
        match $id {
            "C01" => $f(&props::c01::C01, $($arg),*),
            "C02" => $f(&props::hist::C02, $($arg),*),
            "C03" => $f(&props::hist::C03, $($arg),*),
            "C04" => $f(&props::hist::C04, $($arg),*),
            "C09" => $f(&props::hist::C09, $($arg),*),
            "C05" => $f(&props::hist2::C05, $($arg),*),
            "C06" => $f(&props::hist2::C06, $($arg),*),
            "C07" => $f(&props::hist2::C07, $($arg),*),
            "C10" => $f(&props::hist2::C10, $($arg),*),
            "C11" => $f(&props::streams::C11, $($arg),*),
            "C13" => $f(&props::streams::C13, $($arg),*),
            "C14" => $f(&props::attack::C14, $($arg),*),
            "C15" => $f(&props::attack::C15, $($arg),*),
            "C16" => $f(&props::refeval::C16, $($arg),*),
            "C17" => $f(&props::refeval::C17, $($arg),*),
            "C18" => $f(&props::xorerr::C18, $($arg),*),
            "C19" => $f(&props::refeval::C19, $($arg),*),
            "C20" => $f(&props::hist2::C20, $($arg),*),
            "C27" => $f(&props::hist2::C27, $($arg),*),
            "C08" => $f(&props::hist3::C08, $($arg),*),
            "C12" => $f(&props::hist3::C12, $($arg),*),
            "C21" => $f(&props::hist3::C21, $($arg),*),
            "C22" => $f(&props::hist3::C22, $($arg),*),
            "C23" => $f(&props::parse::C23, $($arg),*),
            "C24" => $f(&props::lens::C24, $($arg),*),
            "C25" => $f(&props::pure::C25, $($arg),*),
            "C28" => $f(&props::parse::C28, $($arg),*),
            "C26" => $f(&props::pure::C26, $($arg),*),
            other => {
                eprintln!("unknown property {}", other);
                std::process::exit(3)
            }
        }
    };
}

fn do_check<P: Property>(p: &P, tier: Tier) -> i32 {
    let opts = RunOpts::from_env(tier);
    let s = run_property(p, &opts);
    write_evidence(p.id(), &s.evidence);
    s.exit
}

fn do_replay<P: Property>(p: &P, path: &str) -> i32 {
    replay_file(p, path, Tier::Quick)
}

fn main() {
    let args: Vec<String> = std::env::args().collect();
    if args.get(1).map(|s| s.as_str()) == Some("worker") {
        aquaverif::isolate::worker_main();
        return;
    }
    aquaverif::isolate::install_quiet_hook();
    // the parser prints its diagnostics to stderr on every rejected script; the harness reports on stdout
    if std::env::var("VERIF_KEEP_STDERR").is_err() && matches!(args.get(1).map(|s| s.as_str()), Some("check") | Some("replay")) {
        unsafe {
            let fd = libc::open(b"/dev/null\0".as_ptr() as *const libc::c_char, libc::O_WRONLY);
            if fd >= 0 {
                libc::dup2(fd, 2);
            }
        }
    }
    if args.get(1).map(|s| s.as_str()) == Some("rerun") {
        // fresh-process re-execution for C20: run description on stdin, projection on stdout
        let mut text = String::new();
        use std::io::Read;
        std::io::stdin().read_to_string(&mut text).expect("stdin");
        let v: serde_json::Value = serde_json::from_str(&text).expect("json");
        println!("{}", props::hist2::rerun_from_json(&v));
        return;
    }
    if args.len() < 3 {
        eprintln!("usage: aquaverif check <ID> <quick|thorough> | replay <ID> <file> | gen <profile> <n>");
        std::process::exit(3);
    }
    let code = match args[1].as_str() {
        "check" => {
            let tier = if args.get(3).map(|s| s.as_str()) == Some("thorough") { Tier::Thorough } else { Tier::Quick };
            dispatch!(args[2].as_str(), do_check, tier)
        }
        "replay" => {
            let path = args[3].clone();
            dispatch!(args[2].as_str(), do_replay, &path)
        }
        "fuzzcorpus" => {
            // deterministic seed corpora for the libFuzzer targets: <dir>/<target>/*
            use proptest::strategy::{Strategy, ValueTree};
            let dir = args[2].clone();
            let mut runner = proptest::test_runner::TestRunner::deterministic();
            for t in ["fz_parse", "fz_json", "fz_envelope", "fz_codec", "fz_structured"] {
                let _ = std::fs::create_dir_all(format!("{}/{}", dir, t));
            }
            for k in 0..24 {
                let sk = aquaverif::gen::sk_strategy(5, 30).new_tree(&mut runner).unwrap().current();
                let profile = [aquaverif::gen::Profile::Frag, aquaverif::gen::Profile::Stream, aquaverif::gen::Profile::Any][k % 3];
                let sc = aquaverif::gen::elaborate(&sk, &aquaverif::gen::GenCfg::new(profile));
                std::fs::write(format!("{}/fz_parse/script{}", dir, k), &sc.text).unwrap();
                let v = aquaverif::jsongen::value_strategy(3, 4).new_tree(&mut runner).unwrap().current();
                std::fs::write(format!("{}/fz_json/value{}", dir, k), aquaverif::jsongen::noncanonical_text(&v, &[k as u16, 7, 3])).unwrap();
            }
            for (k, frag) in ["x.$.a", "x.$.[0]", "#can.$.[1].b", "%last_error%.$.message", ".length", ".$.[k]!"].iter().enumerate() {
                std::fs::write(format!("{}/fz_parse/lens{}", dir, k), frag).unwrap();
            }
            let seed = aquaverif::fuzzapi::envelope_seed();
            std::fs::write(format!("{}/fz_envelope/honest", dir), &seed).unwrap();
            for c in 0..12u16 {
                std::fs::write(format!("{}/fz_envelope/mangled{}", dir, c), aquaverif::props::faults::mangle(&seed, c * 37 + 5)).unwrap();
            }
            let mut res = std::collections::BTreeMap::new();
            res.insert(1u32, (0i32, "\"ok\"".to_string()));
            res.insert(7u32, (3i32, "failed".to_string()));
            std::fs::write(format!("{}/fz_codec/results", dir), aquaverif::core::encode_results(&res)).unwrap();
            std::fs::write(format!("{}/fz_codec/data", dir), &seed).unwrap();
            for k in 0..26u32 {
                // one seed per catalog kind
                let kind = (((k << 16) / 26) + 1) as u16;
                let mut b = vec![];
                for x in [kind, 17 * k as u16, 4099, 3 + k as u16] {
                    b.extend_from_slice(&x.to_le_bytes());
                }
                std::fs::write(format!("{}/fz_structured/kind{}", dir, k), b).unwrap();
            }
            0
        }
        "fuzzreplay" => {
            // re-run one fuzz input through the release-build oracle: exit 1 when it fails
            let data = std::fs::read(&args[3]).expect("read input");
            let name = args[2].clone();
            let r = std::panic::catch_unwind(|| aquaverif::fuzzapi::run_target(&name, &data));
            match r {
                Ok(true) => {
                    println!("fuzzreplay {}: held", args[3]);
                    0
                }
                Ok(false) => 3,
                Err(_) => {
                    println!("fuzzreplay {}: FAILS: {}", args[3], aquaverif::isolate::last_panic());
                    1
                }
            }
        }
        "parse" => {
            // triage: parse a script file, print the verdict and the independent scope analysis
            let text = std::fs::read_to_string(&args[2]).expect("read");
            match air_parser::parse(&text) {
                Ok(t) => {
                    let info = aquaverif::model::scope::analyse(&t);
                    println!("ACCEPTED; occurrences: {:?}\nnexts {:?}\nviolations {:?}", info.occs, info.nexts, aquaverif::model::scope::violations(&info));
                }
                Err(e) => println!("REJECTED:\n{}", e),
            }
            0
        }
        "manual" => {
            // run a hand-written script: JSON {text, n_peers, services: {func: Ret}, actions: [...]}
            let text = std::fs::read_to_string(&args[2]).expect("read");
            let v: serde_json::Value = serde_json::from_str(&text).expect("json");
            let n = v["n_peers"].as_u64().unwrap_or(3) as usize;
            let peers = aquaverif::gen::peers_for(n);
            let mut air = v["text"].as_str().unwrap().to_string();
            for (i, p) in peers.iter().enumerate() {
                air = air.replace(&format!("@{}", ["A", "B", "C", "D", "E", "F"][i]), &format!("\"{}\"", p.id));
            }
            let services = serde_json::from_value(v["services"].clone()).unwrap_or_default();
            let script = aquaverif::gen::Script { instr: aquaverif::script::I::Null, text: air, peers, services, feat: Default::default() };
            let mut sim = aquaverif::sim::Sim::new(&script);
            for a in v["actions"].as_array().cloned().unwrap_or_default() {
                sim.step(aquaverif::sim::action_from_json(&a).expect("action"));
            }
            if v["drain"].as_bool().unwrap_or(false) {
                sim.drain();
            }
            println!("{}", script.text);
            if std::env::var("DUMP_JSON").is_ok() {
                if let Some(r) = sim.log.last() {
                    let d = aquaverif::core::decode_data(&r.out.data).unwrap();
                    println!("{}", serde_json::to_string_pretty(&aquaverif::core::data_json(&d.data)).unwrap());
                }
            }
            for r in &sim.log {
                println!("--- step {} {:?} on {} results {:?}", r.step, r.action, script.peers[r.peer].name, r.results);
                for (n, b) in [("prev", &r.prev), ("cur ", &r.cur), ("new ", &r.out.data)] {
                    if let Ok(d) = aquaverif::core::decode_data(b) {
                        println!("  {} lcid {} : {}", n, d.data.last_call_request_id, aquaverif::model::show::trace(&d.data));
                    }
                }
                println!("  => code {} {} next {:?} reqs {:?}", r.out.ret_code, r.out.error_message, r.out.next_peers.iter().map(|p| script.peer_by_id(p).map(|k| k.name.clone()).unwrap_or(p.clone())).collect::<Vec<_>>(), r.out.requests.as_ref().map(|m| m.iter().map(|(k, q)| format!("{}:{}", k, q.function)).collect::<Vec<_>>()));
            }
            0
        }
        "leaktest" => {
            let bytes = std::fs::read(&args[2]).expect("read");
            let _ = air::to_human_readable_data(bytes.clone());
            let a = aquaverif::isolate::live_now();
            for _ in 0..1000 {
                let _ = air::to_human_readable_data(bytes.clone());
            }
            let b = aquaverif::isolate::live_now();
            println!("live before {} after {} => {} bytes per run", a, b, (b as f64 - a as f64) / 1000.0);
            match air::to_human_readable_data(bytes.clone()) {
                Ok(t) => println!("{}", &t[..t.len().min(3000)]),
                Err(e) => println!("error: {}", e),
            }
            0
        }
        "strace" => {
            // replay a stream scenario case (C11/C13) and print every run
            let text = std::fs::read_to_string(&args[2]).expect("read");
            let v: serde_json::Value = serde_json::from_str(&text).expect("json");
            let case: props::streams::StreamCase = serde_json::from_value(v["case"].clone()).expect("case");
            let (sc, log) = props::streams::run_for_trace(&case);
            println!("{}", sc.script.text);
            for (i, p) in sc.script.peers.iter().enumerate() {
                println!("peer {} = {} {}", i, p.name, p.id);
            }
            println!("designated {} folder {}", sc.designated, sc.folder);
            for r in &log {
                println!("--- step {} {:?} on {} results {:?}", r.step, r.action, sc.script.peers[r.peer].name, r.results);
                for (n, b) in [("prev", &r.prev), ("cur ", &r.cur), ("new ", &r.out.data)] {
                    match aquaverif::core::decode_data(b) {
                        Ok(d) => println!("  {} lcid {} : {}", n, d.data.last_call_request_id, aquaverif::model::show::trace(&d.data)),
                        Err(e) => println!("  {} undecodable {}", n, e),
                    }
                }
                println!("  => code {} {} next {:?} reqs {:?}", r.out.ret_code, r.out.error_message, r.out.next_peers.iter().map(|p| sc.script.peer_by_id(p).map(|k| k.name.clone()).unwrap_or(p.clone())).collect::<Vec<_>>(), r.out.requests.as_ref().map(|m| m.iter().map(|(k, q)| format!("{}:{}{:?}", k, q.function, q.args)).collect::<Vec<_>>()));
            }
            0
        }
        "trace" => {
            // replay a history case and print every run
            let text = std::fs::read_to_string(&args[3]).expect("read");
            let v: serde_json::Value = serde_json::from_str(&text).expect("json");
            let case: props::hist::HistCase = serde_json::from_value(v["case"].clone()).expect("case");
            let h = props::hist::simulate(&case).expect("simulate");
            println!("{}", h.script.text);
            for (i, p) in h.script.peers.iter().enumerate() {
                println!("peer {} = {} {}", i, p.name, p.id);
            }
            for r in &h.log {
                println!("--- step {} {:?} on {} results {:?}", r.step, r.action, h.script.peers[r.peer].name, r.results);
                for (n, b) in [("prev", &r.prev), ("cur ", &r.cur), ("new ", &r.out.data)] {
                    match aquaverif::core::decode_data(b) {
                        Ok(d) => println!("  {} lcid {} : {}", n, d.data.last_call_request_id, aquaverif::model::show::trace(&d.data)),
                        Err(e) => println!("  {} undecodable {}", n, e),
                    }
                }
                println!("  => code {} {} next {:?} reqs {:?}", r.out.ret_code, r.out.error_message, r.out.next_peers.iter().map(|p| h.script.peer_by_id(p).map(|k| k.name.clone()).unwrap_or(p.clone())).collect::<Vec<_>>(), r.out.requests.as_ref().map(|m| m.iter().map(|(k, q)| format!("{}:{}{:?}", k, q.function, q.args)).collect::<Vec<_>>()));
            }
            0
        }
        _ => 3,
    };
    std::process::exit(code);
}

use aquaverif::engine::*;
use aquaverif::props;

macro_rules! dispatch {
    ($id:expr, $f:ident, $($arg:expr),*) => {
        match $id {
            "C02" => $f(&props::hist::C02, $($arg),*),
            "C03" => $f(&props::hist::C03, $($arg),*),
            "C04" => $f(&props::hist::C04, $($arg),*),
            "C09" => $f(&props::hist::C09, $($arg),*),
            other => {
                eprintln!("unknown property {}", other);
                std::process::exit(3)
            }
        }
    };
}

fn do_check<P: Property>(p: &P, tier: Tier) -> i32 {
    let opts = RunOpts::from_env(tier);
    let s = run_property(p, &opts);
    write_evidence(p.id(), &s.evidence);
    s.exit
}

fn do_replay<P: Property>(p: &P, path: &str) -> i32 {
    replay_file(p, path, Tier::Quick)
}

fn main() {
    let args: Vec<String> = std::env::args().collect();
    if args.len() < 3 {
        eprintln!("usage: aquaverif check <ID> <quick|thorough> | replay <ID> <file> | gen <profile> <n>");
        std::process::exit(3);
    }
    let code = match args[1].as_str() {
        "check" => {
            let tier = if args.get(3).map(|s| s.as_str()) == Some("thorough") { Tier::Thorough } else { Tier::Quick };
            dispatch!(args[2].as_str(), do_check, tier)
        }
        "replay" => {
            let path = args[3].clone();
            dispatch!(args[2].as_str(), do_replay, &path)
        }
        "trace" => {
            // replay a history case and print every run
            let text = std::fs::read_to_string(&args[3]).expect("read");
            let v: serde_json::Value = serde_json::from_str(&text).expect("json");
            let case: props::hist::HistCase = serde_json::from_value(v["case"].clone()).expect("case");
            let h = props::hist::simulate(&case).expect("simulate");
            println!("{}", h.script.text);
            for (i, p) in h.script.peers.iter().enumerate() {
                println!("peer {} = {} {}", i, p.name, p.id);
            }
            for r in &h.log {
                println!("--- step {} {:?} on {} results {:?}", r.step, r.action, h.script.peers[r.peer].name, r.results);
                for (n, b) in [("prev", &r.prev), ("cur ", &r.cur), ("new ", &r.out.data)] {
                    match aquaverif::core::decode_data(b) {
                        Ok(d) => println!("  {} lcid {} : {}", n, d.data.last_call_request_id, aquaverif::model::show::trace(&d.data)),
                        Err(e) => println!("  {} undecodable {}", n, e),
                    }
                }
                println!("  => code {} {} next {:?} reqs {:?}", r.out.ret_code, r.out.error_message, r.out.next_peers.iter().map(|p| h.script.peer_by_id(p).map(|k| k.name.clone()).unwrap_or(p.clone())).collect::<Vec<_>>(), r.out.requests.as_ref().map(|m| m.iter().map(|(k, q)| format!("{}:{}{:?}", k, q.function, q.args)).collect::<Vec<_>>()));
            }
            0
        }
        _ => 3,
    };
    std::process::exit(code);
}

//! Harness-side AIR AST (independent of `air_parser::ast`), printer, and the service
//! model.  Scripts are built by construction (see `gen.rs`) and printed as AIR text.

use serde_json::{json, Value};

#[derive(Clone, Debug, PartialEq, serde::Serialize, serde::Deserialize)]
pub enum LensStep {
    Field(String),
    Idx(u32),
    /// `.[scalar]`
    ByScalar(String),
}

#[derive(Clone, Debug, PartialEq, serde::Serialize, serde::Deserialize)]
pub enum Arg {
    Str(String),
    Num(i64),
    Float(String),
    Bool(bool),
    EmptyArr,
    InitPeer,
    Timestamp,
    Ttl,
    /// `%last_error%` with optional raw lens text (".$.message")
    LastError(Option<String>),
    /// `:error:`
    Error(Option<String>),
    /// variable (name with sigil for canons) + lens; `length` = `.length` functor
    Var { name: String, lens: Vec<LensStep>, length: bool },
}

impl Arg {
    pub fn var(name: &str) -> Arg {
        Arg::Var { name: name.to_string(), lens: vec![], length: false }
    }
    pub fn var_name(&self) -> Option<&str> {
        match self {
            Arg::Var { name, .. } => Some(name),
            _ => None,
        }
    }
}

pub fn lens_text(lens: &[LensStep]) -> String {
    let mut s = String::new();
    if lens.is_empty() {
        return s;
    }
    s.push_str(".$");
    for st in lens {
        match st {
            LensStep::Field(f) => {
                s.push('.');
                s.push_str(f);
            }
            LensStep::Idx(i) => s.push_str(&format!(".[{}]", i)),
            LensStep::ByScalar(n) => s.push_str(&format!(".[{}]", n)),
        }
    }
    s
}

impl std::fmt::Display for Arg {
    fn fmt(&self, f: &mut std::fmt::Formatter<'_>) -> std::fmt::Result {
        match self {
            Arg::Str(s) => write!(f, "\"{}\"", s),
            Arg::Num(n) => write!(f, "{}", n),
            Arg::Float(s) => write!(f, "{}", s),
            Arg::Bool(b) => write!(f, "{}", b),
            Arg::EmptyArr => write!(f, "[]"),
            Arg::InitPeer => write!(f, "%init_peer_id%"),
            Arg::Timestamp => write!(f, "%timestamp%"),
            Arg::Ttl => write!(f, "%ttl%"),
            Arg::LastError(l) => write!(f, "%last_error%{}", l.clone().unwrap_or_default()),
            Arg::Error(l) => write!(f, ":error:{}", l.clone().unwrap_or_default()),
            Arg::Var { name, lens, length } => {
                if *length {
                    write!(f, "{}.length", name)
                } else {
                    write!(f, "{}{}", name, lens_text(lens))
                }
            }
        }
    }
}

#[derive(Clone, Debug, PartialEq, serde::Serialize, serde::Deserialize)]
pub enum FailKind {
    Lit(i64, String),
    Arg(Arg),
}

#[derive(Clone, Debug, PartialEq, serde::Serialize, serde::Deserialize)]
pub enum I {
    Call { peer: Arg, svc: Arg, func: Arg, args: Vec<Arg>, out: Option<String> },
    Seq(Box<I>, Box<I>),
    Par(Box<I>, Box<I>),
    Xor(Box<I>, Box<I>),
    Match(Arg, Arg, Box<I>),
    Mismatch(Arg, Arg, Box<I>),
    Fail(FailKind),
    Null,
    Never,
    Ap { src: Arg, dst: String },
    ApMap { key: Arg, val: Arg, map: String },
    New { var: String, body: Box<I> },
    /// `iterable` is printed as is: scalar(+lens), `$s`, `%m`, `#c`, `#%k`, `[]`
    Fold { iterable: Arg, iter: String, body: Box<I>, last: Option<Box<I>> },
    Next(String),
    /// `src`: `$s` or `%m`; `dst`: `#c`, `#%k` or scalar
    Canon { peer: Arg, src: String, dst: String },
}

impl I {
    pub fn seq(a: I, b: I) -> I {
        I::Seq(Box::new(a), Box::new(b))
    }
    pub fn par(a: I, b: I) -> I {
        I::Par(Box::new(a), Box::new(b))
    }
    pub fn xor(a: I, b: I) -> I {
        I::Xor(Box::new(a), Box::new(b))
    }
    pub fn seq_all(mut v: Vec<I>) -> I {
        match v.len() {
            0 => I::Null,
            1 => v.pop().unwrap(),
            _ => {
                let first = v.remove(0);
                I::seq(first, I::seq_all(v))
            }
        }
    }
    pub fn count(&self) -> usize {
        match self {
            I::Seq(a, b) | I::Par(a, b) | I::Xor(a, b) => 1 + a.count() + b.count(),
            I::Match(_, _, b) | I::Mismatch(_, _, b) | I::New { body: b, .. } => 1 + b.count(),
            I::Fold { body, last, .. } => 1 + body.count() + last.as_ref().map(|l| l.count()).unwrap_or(0),
            _ => 1,
        }
    }
    pub fn depth(&self) -> usize {
        match self {
            I::Seq(a, b) | I::Par(a, b) | I::Xor(a, b) => 1 + a.depth().max(b.depth()),
            I::Match(_, _, b) | I::Mismatch(_, _, b) | I::New { body: b, .. } => 1 + b.depth(),
            I::Fold { body, last, .. } => 1 + body.depth().max(last.as_ref().map(|l| l.depth()).unwrap_or(0)),
            _ => 1,
        }
    }
    pub fn visit<'a>(&'a self, f: &mut dyn FnMut(&'a I)) {
        f(self);
        match self {
            I::Seq(a, b) | I::Par(a, b) | I::Xor(a, b) => {
                a.visit(f);
                b.visit(f);
            }
            I::Match(_, _, b) | I::Mismatch(_, _, b) | I::New { body: b, .. } => b.visit(f),
            I::Fold { body, last, .. } => {
                body.visit(f);
                if let Some(l) = last {
                    l.visit(f);
                }
            }
            _ => {}
        }
    }
}

fn ind(n: usize) -> String {
    " ".repeat(n)
}

pub fn print(i: &I) -> String {
    let mut s = String::new();
    print_into(i, 0, &mut s);
    s
}

fn print_into(i: &I, d: usize, s: &mut String) {
    let p = ind(d);
    match i {
        I::Call { peer, svc, func, args, out } => {
            let a: Vec<String> = args.iter().map(|a| a.to_string()).collect();
            s.push_str(&format!("{}(call {} ({} {}) [{}]", p, peer, svc, func, a.join(" ")));
            if let Some(o) = out {
                s.push(' ');
                s.push_str(o);
            }
            s.push_str(")\n");
        }
        I::Seq(a, b) | I::Par(a, b) | I::Xor(a, b) => {
            let kw = match i {
                I::Seq(..) => "seq",
                I::Par(..) => "par",
                _ => "xor",
            };
            s.push_str(&format!("{}({}\n", p, kw));
            print_into(a, d + 1, s);
            print_into(b, d + 1, s);
            s.push_str(&format!("{})\n", p));
        }
        I::Match(a, b, body) | I::Mismatch(a, b, body) => {
            let kw = if matches!(i, I::Match(..)) { "match" } else { "mismatch" };
            s.push_str(&format!("{}({} {} {}\n", p, kw, a, b));
            print_into(body, d + 1, s);
            s.push_str(&format!("{})\n", p));
        }
        I::Fail(FailKind::Lit(c, m)) => s.push_str(&format!("{}(fail {} \"{}\")\n", p, c, m)),
        I::Fail(FailKind::Arg(a)) => s.push_str(&format!("{}(fail {})\n", p, a)),
        I::Null => s.push_str(&format!("{}(null)\n", p)),
        I::Never => s.push_str(&format!("{}(never)\n", p)),
        I::Ap { src, dst } => s.push_str(&format!("{}(ap {} {})\n", p, src, dst)),
        I::ApMap { key, val, map } => s.push_str(&format!("{}(ap ({} {}) {})\n", p, key, val, map)),
        I::New { var, body } => {
            s.push_str(&format!("{}(new {}\n", p, var));
            print_into(body, d + 1, s);
            s.push_str(&format!("{})\n", p));
        }
        I::Fold { iterable, iter, body, last } => {
            s.push_str(&format!("{}(fold {} {}\n", p, iterable, iter));
            print_into(body, d + 1, s);
            if let Some(l) = last {
                print_into(l, d + 1, s);
            }
            s.push_str(&format!("{})\n", p));
        }
        I::Next(it) => s.push_str(&format!("{}(next {})\n", p, it)),
        I::Canon { peer, src, dst } => s.push_str(&format!("{}(canon {} {} {})\n", p, peer, src, dst)),
    }
}

// ------------------------------------------------------------------ service model

/// What a function returns; a pure function of (spec, function name, args).
#[derive(Clone, Debug, PartialEq, serde::Serialize, serde::Deserialize)]
pub enum Ret {
    /// unique string "f:<h>"
    Str,
    /// a number derived from the args hash
    Num,
    /// array of `n` distinct strings
    ArrStr(u8),
    /// array of `n` objects `{a, n, p}`; `p` cycles over the given peer ids
    ArrObj(u8, Vec<String>),
    /// array of peer ids
    ArrPeer(Vec<String>),
    /// object {a: str, b: [str;2], p: peer, n: num, o: {x: str}}
    Obj(String),
    /// a peer id
    Peer(String),
    /// fixed JSON
    Const(Value),
    /// echo of the i-th argument (or null)
    Echo(u8),
    /// service error
    Err(i32, String),
    /// a result string that is not JSON (labelled sub-domain, see DESIGN C03 R)
    NonJson,
    /// recursion chain for stream folds: echoes its trigger (args[0], an object) one level deeper:
    /// {a: "rec:<hash>", lvl: trigger.lvl + 1, n: 0 while lvl + 1 < depth else 7, p: next peer}
    RecChain(u8, Vec<String>),
}

/// Shapes known to the generator (what lens paths make sense).
#[derive(Clone, Debug, PartialEq)]
pub enum Shape {
    Str,
    Num,
    Bool,
    Peer,
    Arr(Box<Shape>),
    /// {a: Str, b: Arr(Str), p: Peer, n: Num, o: {x: Str}}
    Obj,
    /// {a: Str, n: Num, p: Peer}
    SmallObj,
    /// {x: Str}
    Inner,
    /// error object
    ErrObj,
    /// {key, value}
    Kv(Box<Shape>),
    Unknown,
}

impl Ret {
    pub fn shape(&self, arg_shapes: &[Shape]) -> Shape {
        match self {
            Ret::Str => Shape::Str,
            Ret::Num => Shape::Num,
            Ret::ArrStr(_) => Shape::Arr(Box::new(Shape::Str)),
            Ret::ArrObj(..) => Shape::Arr(Box::new(Shape::SmallObj)),
            Ret::ArrPeer(_) => Shape::Arr(Box::new(Shape::Peer)),
            Ret::Obj(_) => Shape::Obj,
            Ret::Peer(_) => Shape::Peer,
            Ret::Const(_) => Shape::Unknown,
            Ret::Echo(i) => arg_shapes.get(*i as usize).cloned().unwrap_or(Shape::Unknown),
            Ret::Err(..) | Ret::NonJson => Shape::Unknown,
            Ret::RecChain(..) => Shape::SmallObj,
        }
    }
    pub fn fails(&self) -> bool {
        matches!(self, Ret::Err(..) | Ret::NonJson)
    }
}

fn short_hash(func: &str, args: &[Value]) -> String {
    let mut h: u64 = 0xcbf29ce484222325;
    let text = format!("{}|{}", func, Value::Array(args.to_vec()));
    for b in text.as_bytes() {
        h ^= *b as u64;
        h = h.wrapping_mul(0x100000001b3);
    }
    format!("{:06x}", h & 0xffffff)
}

/// The deterministic service: (ret_code, result string).
pub fn serve(spec: &Ret, func: &str, args: &[Value]) -> (i32, String) {
    let h = short_hash(func, args);
    let v = match spec {
        Ret::Str => json!(format!("{}:{}", func, h)),
        Ret::Num => json!(u64::from_str_radix(&h, 16).unwrap_or(0) % 1000),
        Ret::ArrStr(n) => Value::Array((0..*n).map(|i| json!(format!("{}:{}:{}", func, h, i))).collect()),
        Ret::ArrObj(n, peers) => Value::Array(
            (0..*n)
                .map(|i| {
                    json!({"a": format!("{}:{}:{}", func, h, i), "n": i, "p": peers[i as usize % peers.len().max(1)]})
                })
                .collect(),
        ),
        Ret::ArrPeer(p) => Value::Array(p.iter().map(|x| json!(x)).collect()),
        Ret::Obj(peer) => json!({
            "a": format!("{}:{}", func, h),
            "b": [format!("{}:{}:b0", func, h), format!("{}:{}:b1", func, h)],
            "p": peer,
            "n": 1,
            "o": {"x": format!("{}:{}:x", func, h)}
        }),
        Ret::Peer(p) => json!(p),
        Ret::Const(v) => v.clone(),
        Ret::Echo(i) => args.get(*i as usize).cloned().unwrap_or(Value::Null),
        Ret::Err(code, msg) => return (*code, json!(format!("{}:{}", msg, h)).to_string()),
        Ret::NonJson => return (0, format!("not json {}:{}", func, h)),
        Ret::RecChain(depth, peers) => {
            let lvl = args.first().and_then(|a| a.get("lvl")).and_then(|x| x.as_u64()).unwrap_or(0) + 1;
            let n = if lvl < *depth as u64 { 0 } else { 7 };
            let p = peers.get((lvl as usize + h.len() + h.as_bytes()[0] as usize) % peers.len().max(1)).cloned().unwrap_or_default();
            json!({"a": format!("rec:{}", h), "lvl": lvl, "n": n, "p": p})
        }
    };
    (0, v.to_string())
}

// ------------------------------------------------------------------ generator-side scope analysis (C23)

#[derive(Clone, Debug, PartialEq)]
pub enum ScopeEv {
    Def(String),
    Use(String),
    /// (iterator, enclosed by a fold with that iterator)
    Next(String, bool),
}

fn arg_events(a: &Arg, out: &mut Vec<ScopeEv>) {
    if let Arg::Var { name, lens, .. } = a {
        out.push(ScopeEv::Use(name.clone()));
        for st in lens {
            if let LensStep::ByScalar(n) = st {
                out.push(ScopeEv::Use(n.clone()));
            }
        }
    }
}

/// definition / use events in token order (the order `print` emits them)
pub fn scope_events(i: &I) -> Vec<ScopeEv> {
    fn go(i: &I, iters: &mut Vec<String>, out: &mut Vec<ScopeEv>) {
        match i {
            I::Call { peer, svc, func, args, out: o } => {
                arg_events(peer, out);
                arg_events(svc, out);
                arg_events(func, out);
                for a in args {
                    arg_events(a, out);
                }
                if let Some(o) = o {
                    out.push(ScopeEv::Def(o.clone()));
                }
            }
            I::Seq(a, b) | I::Par(a, b) | I::Xor(a, b) => {
                go(a, iters, out);
                go(b, iters, out);
            }
            I::Match(a, b, body) | I::Mismatch(a, b, body) => {
                arg_events(a, out);
                arg_events(b, out);
                go(body, iters, out);
            }
            I::Fail(FailKind::Arg(a)) => arg_events(a, out),
            I::Fail(_) | I::Null | I::Never => {}
            I::Ap { src, dst } => {
                arg_events(src, out);
                out.push(ScopeEv::Def(dst.clone()));
            }
            I::ApMap { key, val, map } => {
                arg_events(key, out);
                arg_events(val, out);
                out.push(ScopeEv::Def(map.clone()));
            }
            I::New { var, body } => {
                out.push(ScopeEv::Def(var.clone()));
                go(body, iters, out);
            }
            I::Fold { iterable, iter, body, last } => {
                arg_events(iterable, out);
                out.push(ScopeEv::Def(iter.clone()));
                iters.push(iter.clone());
                go(body, iters, out);
                if let Some(l) = last {
                    go(l, iters, out);
                }
                iters.pop();
            }
            I::Next(it) => out.push(ScopeEv::Next(it.clone(), iters.contains(it))),
            I::Canon { peer, dst, .. } => {
                arg_events(peer, out);
                out.push(ScopeEv::Def(dst.clone()));
            }
        }
    }
    let mut out = vec![];
    go(i, &mut vec![], &mut out);
    out
}

/// Some(reason) when a use has no earlier definition or a next is not enclosed
pub fn ill_scoped(i: &I) -> Option<String> {
    let evs = scope_events(i);
    let mut defined: std::collections::BTreeSet<&str> = Default::default();
    for e in &evs {
        match e {
            ScopeEv::Def(n) => {
                defined.insert(n.as_str());
            }
            ScopeEv::Use(n) => {
                if !defined.contains(n.as_str()) {
                    return Some(format!("{} is used before any definition", n));
                }
            }
            ScopeEv::Next(n, enclosed) => {
                if !enclosed {
                    return Some(format!("next {} outside a fold over it", n));
                }
            }
        }
    }
    None
}

/// visit every argument position (uses) mutably, in token order
pub fn for_each_arg_mut(i: &mut I, f: &mut dyn FnMut(&mut Arg)) {
    match i {
        I::Call { peer, svc, func, args, .. } => {
            f(peer);
            f(svc);
            f(func);
            for a in args {
                f(a);
            }
        }
        I::Seq(a, b) | I::Par(a, b) | I::Xor(a, b) => {
            for_each_arg_mut(a, f);
            for_each_arg_mut(b, f);
        }
        I::Match(a, b, body) | I::Mismatch(a, b, body) => {
            f(a);
            f(b);
            for_each_arg_mut(body, f);
        }
        I::Fail(FailKind::Arg(a)) => f(a),
        I::Fail(_) | I::Null | I::Never | I::Next(_) => {}
        I::Ap { src, .. } => f(src),
        I::ApMap { key, val, .. } => {
            f(key);
            f(val);
        }
        I::New { body, .. } => for_each_arg_mut(body, f),
        I::Fold { iterable, body, last, .. } => {
            f(iterable);
            for_each_arg_mut(body, f);
            if let Some(l) = last {
                for_each_arg_mut(l, f);
            }
        }
        I::Canon { peer, .. } => f(peer),
    }
}

pub fn for_each_instr_mut(i: &mut I, f: &mut dyn FnMut(&mut I)) {
    f(i);
    match i {
        I::Seq(a, b) | I::Par(a, b) | I::Xor(a, b) => {
            for_each_instr_mut(a, f);
            for_each_instr_mut(b, f);
        }
        I::Match(_, _, b) | I::Mismatch(_, _, b) | I::New { body: b, .. } => for_each_instr_mut(b, f),
        I::Fold { body, last, .. } => {
            for_each_instr_mut(body, f);
            if let Some(l) = last {
                for_each_instr_mut(l, f);
            }
        }
        _ => {}
    }
}

/// number of appends to streams / maps that sit inside the body of a fold over a stream or map
pub fn appends_inside_stream_folds(i: &I) -> usize {
    fn go(i: &I, inside: bool, n: &mut usize) {
        match i {
            I::Call { out: Some(o), .. } if inside && (o.starts_with('$') || o.starts_with('%')) => *n += 1,
            I::Ap { dst, .. } if inside && dst.starts_with('$') => *n += 1,
            I::ApMap { .. } if inside => *n += 1,
            I::Seq(a, b) | I::Par(a, b) | I::Xor(a, b) => {
                go(a, inside, n);
                go(b, inside, n);
            }
            I::Match(_, _, b) | I::Mismatch(_, _, b) | I::New { body: b, .. } => go(b, inside, n),
            I::Fold { iterable, body, last, .. } => {
                let streamlike = matches!(iterable, Arg::Var { name, .. } if name.starts_with('$') || name.starts_with('%'));
                go(body, inside || streamlike, n);
                if let Some(l) = last {
                    go(l, inside || streamlike, n);
                }
            }
            _ => {}
        }
    }
    let mut n = 0;
    go(i, false, &mut n);
    n
}

/// does some fold over a stream / map have a last instruction other than `(null)`?
pub fn stream_fold_with_last_instruction(i: &I) -> bool {
    let mut found = false;
    i.visit(&mut |n| {
        if let I::Fold { iterable: Arg::Var { name, .. }, last: Some(l), .. } = n {
            if (name.starts_with('$') || name.starts_with('%')) && **l != I::Null {
                found = true;
            }
        }
    });
    found
}

//! Process isolation and resource accounting for C01 (DESIGN §3.7): a counting global
//! allocator, a quiet panic hook that records a stable signature, and a pool of worker
//! processes (this same binary run as `aquaverif worker`).

use serde_json::{json, Value};
use std::alloc::{GlobalAlloc, Layout, System};
use std::cell::RefCell;
use std::io::{BufRead, BufReader, Read, Write};
use std::process::{Child, ChildStdin, ChildStdout, Command, Stdio};
use std::sync::atomic::{AtomicBool, AtomicUsize, Ordering};

// ------------------------------------------------------------------ allocator

pub struct Counting;

static ENABLED: AtomicBool = AtomicBool::new(false);
static LIVE: AtomicUsize = AtomicUsize::new(0);
static PEAK: AtomicUsize = AtomicUsize::new(0);
/// a single request above this is refused (returns null => the process aborts)
pub const MAX_SINGLE: usize = 1 << 30;
/// live total above this is refused
pub const MAX_LIVE: usize = 2 << 30;
/// live-heap cap of the current case (a case may lower it: scripts that grow without bound are
/// stopped at a small multiple of the judged bound instead of after minutes of copying)
static LIVE_CAP: AtomicUsize = AtomicUsize::new(MAX_LIVE);

unsafe impl GlobalAlloc for Counting {
    unsafe fn alloc(&self, l: Layout) -> *mut u8 {
        if ENABLED.load(Ordering::Relaxed) {
            let live = LIVE.load(Ordering::Relaxed);
            if l.size() > MAX_SINGLE || live.saturating_add(l.size()) > LIVE_CAP.load(Ordering::Relaxed) {
                return std::ptr::null_mut();
            }
            let now = LIVE.fetch_add(l.size(), Ordering::Relaxed) + l.size();
            PEAK.fetch_max(now, Ordering::Relaxed);
        }
        System.alloc(l)
    }
    unsafe fn dealloc(&self, p: *mut u8, l: Layout) {
        if ENABLED.load(Ordering::Relaxed) {
            LIVE.fetch_sub(l.size().min(LIVE.load(Ordering::Relaxed)), Ordering::Relaxed);
        }
        System.dealloc(p, l)
    }
    unsafe fn realloc(&self, p: *mut u8, l: Layout, new_size: usize) -> *mut u8 {
        if ENABLED.load(Ordering::Relaxed) {
            let live = LIVE.load(Ordering::Relaxed);
            if new_size > MAX_SINGLE || live.saturating_add(new_size.saturating_sub(l.size())) > LIVE_CAP.load(Ordering::Relaxed) {
                return std::ptr::null_mut();
            }
            if new_size >= l.size() {
                let now = LIVE.fetch_add(new_size - l.size(), Ordering::Relaxed) + (new_size - l.size());
                PEAK.fetch_max(now, Ordering::Relaxed);
            } else {
                LIVE.fetch_sub((l.size() - new_size).min(LIVE.load(Ordering::Relaxed)), Ordering::Relaxed);
            }
        }
        System.realloc(p, l, new_size)
    }
}

pub fn accounting_start() {
    ENABLED.store(true, Ordering::SeqCst);
    PEAK.store(LIVE.load(Ordering::SeqCst), Ordering::SeqCst);
}

/// peak live bytes above the level at `accounting_start`
pub fn accounting_peak(base: usize) -> usize {
    PEAK.load(Ordering::SeqCst).saturating_sub(base)
}

pub fn live_now() -> usize {
    LIVE.load(Ordering::SeqCst)
}

// ------------------------------------------------------------------ panic signature

thread_local! {
    static LAST_PANIC: RefCell<String> = RefCell::new(String::new());
}

fn normalise(msg: &str) -> String {
    // keep a stable prefix: drop digits and quoted payloads
    let mut out = String::new();
    for ch in msg.chars().take(90) {
        if ch.is_ascii_digit() {
            if !out.ends_with('#') {
                out.push('#');
            }
        } else if ch == '\n' || ch == '`' || ch == '\'' || ch == '"' {
            // quoted payloads are input dependent
            break;
        } else {
            out.push(ch);
        }
    }
    out
}

pub fn install_quiet_hook() {
    std::panic::set_hook(Box::new(|info| {
        let loc = info
            .location()
            .map(|l| {
                let f = l.file();
                let f = f.strip_prefix("/repo/").unwrap_or(f);
                // scratch copies of the repository (sensitivity runs): keep the path inside the repository
                let f = match (f.find("/crates/"), f.find("/air/src/")) {
                    (Some(i), _) if f.starts_with('/') => &f[i + 1..],
                    (_, Some(i)) if f.starts_with('/') => &f[i + 1..],
                    _ => f,
                };
                // registry paths: keep crate dir + file
                let f = match f.find("/vendor/") {
                    Some(i) => &f[i + 8..],
                    None => f,
                };
                f.to_string()
            })
            .unwrap_or_else(|| "?".into());
        let msg = if let Some(s) = info.payload().downcast_ref::<&str>() {
            s.to_string()
        } else if let Some(s) = info.payload().downcast_ref::<String>() {
            s.clone()
        } else {
            "?".to_string()
        };
        let sig = format!("panic:{}:{}", loc, normalise(&msg));
        LAST_PANIC.with(|p| *p.borrow_mut() = sig.clone());
        if std::env::var("VERIF_VERBOSE").is_ok() {
            eprintln!("{} (line {:?}) full: {}", sig, info.location().map(|l| l.line()), msg);
        }
    }));
}

pub fn last_panic() -> String {
    LAST_PANIC.with(|p| p.borrow().clone())
}

// ------------------------------------------------------------------ worker side

/// Execute one isolated case (in the worker). Returns a JSON result.
pub fn worker_execute(case: &Value) -> Value {
    let kind = case["kind"].as_str().unwrap_or("");
    let input_len = case["input_len"].as_u64().unwrap_or(0) as usize;
    LIVE_CAP.store(case["live_cap"].as_u64().map(|c| c as usize).unwrap_or(MAX_LIVE).min(MAX_LIVE), Ordering::SeqCst);
    let case2 = case.clone();
    let kind2 = kind.to_string();
    // big stack: stack use proportional to the input is documented behaviour
    let handle = std::thread::Builder::new()
        .stack_size(512 << 20)
        .spawn(move || {
            let base = live_now();
            accounting_start();
            let r = std::panic::catch_unwind(std::panic::AssertUnwindSafe(|| run_kind(&kind2, &case2)));
            let peak = accounting_peak(base);
            match r {
                Ok(v) => json!({"status": "ok", "peak": peak, "out": v}),
                Err(_) => json!({"status": "panic", "sig": last_panic(), "peak": peak}),
            }
        })
        .expect("spawn case thread");
    let mut res = handle.join().unwrap_or_else(|_| json!({"status": "panic", "sig": "panic:thread-join"}));
    res["input_len"] = json!(input_len);
    res
}

fn run_kind(kind: &str, c: &Value) -> Value {
    use crate::core::*;
    match kind {
        "run" => {
            let p = Particle {
                script: c["script"].as_str().unwrap_or("").to_string(),
                init_peer_id: c["init"].as_str().unwrap_or("").to_string(),
                particle_id: c["particle_id"].as_str().unwrap_or("").to_string(),
                timestamp: c["timestamp"].as_u64().unwrap_or(0),
                ttl: c["ttl"].as_u64().unwrap_or(0) as u32,
            };
            let peer = peer_key(c["peer_name"].as_str().unwrap_or("A"));
            let params = run_params(&p, &peer, &Limits::default());
            let results = match c["results_hex"].as_str() {
                Some(h) => unhex(h),
                None => {
                    let mut m = std::collections::BTreeMap::new();
                    for e in c["results"].as_array().cloned().unwrap_or_default() {
                        m.insert(e[0].as_u64().unwrap_or(0) as u32, (e[1].as_i64().unwrap_or(0) as i32, e[2].as_str().unwrap_or("").to_string()));
                    }
                    encode_results(&m)
                }
            };
            let o = run_raw(&p.script, &unhex(c["prev"].as_str().unwrap_or("")), &unhex(c["cur"].as_str().unwrap_or("")), params, results);
            json!({"ret_code": o.ret_code, "msg": o.error_message.chars().take(160).collect::<String>(), "data_len": o.data.len(), "data_is_prev": hex(&o.data) == c["prev"].as_str().unwrap_or(""), "next": o.next_peers_raw.len(), "reqs_ok": o.requests.is_ok(), "reqs": o.requests.map(|m| m.len()).unwrap_or(0)})
        }
        "parse" => {
            let t = c["text"].as_str().unwrap_or("");
            let r = air_parser::parse(t);
            json!({"ok": r.is_ok()})
        }
        "lambda" => {
            let t = c["text"].as_str().unwrap_or("");
            let r = air_lambda_parser::parse(t);
            json!({"ok": r.is_ok()})
        }
        "beautify" => {
            let t = c["text"].as_str().unwrap_or("");
            let mut out: Vec<u8> = vec![];
            let mut b = air_beautifier::Beautifier::new_with_indent(&mut out, c["indent"].as_u64().unwrap_or(4) as usize);
            if c["patterns"].as_bool().unwrap_or(false) {
                b = b.enable_all_patterns();
            }
            let r = b.beautify(t);
            json!({"ok": r.is_ok(), "len": out.len()})
        }
        "human" => {
            let bytes = unhex(c["bytes"].as_str().unwrap_or(""));
            let r = air::to_human_readable_data(bytes);
            json!({"ok": r.is_ok()})
        }
        _ => json!({"error": "unknown kind"}),
    }
}

/// worker main loop: one JSON case per line on stdin, one JSON result per line on stdout
pub fn worker_main() {
    install_quiet_hook();
    let stdin = std::io::stdin();
    let mut out = std::io::stdout();
    for line in stdin.lock().lines() {
        let line = match line {
            Ok(l) => l,
            Err(_) => break,
        };
        if line.trim().is_empty() {
            continue;
        }
        let v: Value = match serde_json::from_str(&line) {
            Ok(v) => v,
            Err(e) => {
                let _ = writeln!(out, "{}", json!({"status": "bad-case", "error": e.to_string()}));
                let _ = out.flush();
                continue;
            }
        };
        let r = worker_execute(&v);
        let _ = writeln!(out, "{}", r);
        let _ = out.flush();
    }
}

// ------------------------------------------------------------------ parent side

pub struct Worker {
    child: Child,
    stdin: ChildStdin,
    stdout: BufReader<ChildStdout>,
    /// tail of the worker's stderr, drained by a helper thread (the parser prints its
    /// diagnostics there; an undrained pipe would block the worker)
    stderr_tail: std::sync::Arc<std::sync::Mutex<Vec<u8>>>,
    drain: Option<std::thread::JoinHandle<()>>,
    pub restarts: usize,
}

type Spawned = (Child, ChildStdin, BufReader<ChildStdout>, std::sync::Arc<std::sync::Mutex<Vec<u8>>>, std::thread::JoinHandle<()>);

fn spawn_worker() -> Spawned {
    let exe = std::env::current_exe().expect("current exe");
    let mut child = Command::new(exe)
        .arg("worker")
        .arg("x")
        .stdin(Stdio::piped())
        .stdout(Stdio::piped())
        .stderr(Stdio::piped())
        .spawn()
        .expect("spawn worker");
    let stdin = child.stdin.take().unwrap();
    let stdout = BufReader::new(child.stdout.take().unwrap());
    let mut stderr = child.stderr.take().unwrap();
    let tail = std::sync::Arc::new(std::sync::Mutex::new(Vec::new()));
    let tail2 = tail.clone();
    let drain = std::thread::spawn(move || {
        let mut buf = [0u8; 8192];
        loop {
            match stderr.read(&mut buf) {
                Ok(0) | Err(_) => break,
                Ok(n) => {
                    let mut t = tail2.lock().unwrap();
                    t.extend_from_slice(&buf[..n]);
                    if t.len() > 16384 {
                        let cut = t.len() - 8192;
                        t.drain(..cut);
                    }
                }
            }
        }
    });
    (child, stdin, stdout, tail, drain)
}

impl Worker {
    pub fn new() -> Worker {
        let (child, stdin, stdout, stderr_tail, drain) = spawn_worker();
        Worker { child, stdin, stdout, stderr_tail, drain: Some(drain), restarts: 0 }
    }

    fn restart(&mut self) -> String {
        let _ = self.child.kill();
        let _ = self.child.wait();
        if let Some(d) = self.drain.take() {
            let _ = d.join();
        }
        let err = String::from_utf8_lossy(&self.stderr_tail.lock().unwrap()).to_string();
        let (child, stdin, stdout, tail, drain) = spawn_worker();
        self.child = child;
        self.stdin = stdin;
        self.stdout = stdout;
        self.stderr_tail = tail;
        self.drain = Some(drain);
        self.restarts += 1;
        err
    }

    /// Run one case in the worker.  A dead worker is attributed to the in-flight case.
    pub fn run(&mut self, case: &Value) -> Value {
        let line = format!("{}\n", case);
        if self.stdin.write_all(line.as_bytes()).is_err() || self.stdin.flush().is_err() {
            let err = self.restart();
            return classify_death(&err);
        }
        // watchdog: the read happens on this thread; a helper thread kills the child on timeout
        let pid = self.child.id();
        // 20 s by default; a case may ask for more (scripts that grow until they hit the live-heap cap)
        let limit_s = case["watchdog_s"].as_u64().unwrap_or(20).clamp(1, 300);
        let done = std::sync::Arc::new(AtomicBool::new(false));
        let done2 = done.clone();
        let timed_out = std::sync::Arc::new(AtomicBool::new(false));
        let t2 = timed_out.clone();
        let watchdog = std::thread::spawn(move || {
            let start = std::time::Instant::now();
            while !done2.load(Ordering::Relaxed) {
                if start.elapsed().as_secs() >= limit_s {
                    t2.store(true, Ordering::Relaxed);
                    unsafe {
                        libc::kill(pid as i32, libc::SIGKILL);
                    }
                    return;
                }
                std::thread::sleep(std::time::Duration::from_millis(5));
            }
        });
        let mut resp = String::new();
        let n = self.stdout.read_line(&mut resp).unwrap_or(0);
        done.store(true, Ordering::Relaxed);
        let _ = watchdog.join();
        if n == 0 {
            let err = self.restart();
            if timed_out.load(Ordering::Relaxed) {
                return json!({"status": "timeout"});
            }
            return classify_death(&err);
        }
        serde_json::from_str(&resp).unwrap_or_else(|_| json!({"status": "bad-response", "raw": resp}))
    }
}

impl Drop for Worker {
    fn drop(&mut self) {
        let _ = self.child.kill();
        let _ = self.child.wait();
    }
}

fn classify_death(stderr: &str) -> Value {
    let tail: String = stderr.chars().rev().take(400).collect::<String>().chars().rev().collect();
    let sig = if stderr.contains("memory allocation of") {
        // size class of the failed request
        let n: u64 = stderr.split("memory allocation of ").nth(1).and_then(|s| s.split(' ').next()).and_then(|s| s.parse().ok()).unwrap_or(0);
        let class = if n >= (1 << 30) { ">=1GiB" } else { "<1GiB-live-limit" };
        format!("abort:alloc:{}", class)
    } else if stderr.contains("stack overflow") || stderr.contains("has overflowed its stack") {
        "abort:stack".to_string()
    } else {
        "abort:unknown".to_string()
    };
    json!({"status": "abort", "sig": sig, "stderr": tail})
}

thread_local! {
    static WORKER: RefCell<Option<Worker>> = RefCell::new(None);
}

/// run a case in this thread's worker process
pub fn isolated(case: &Value) -> Value {
    WORKER.with(|w| {
        let mut w = w.borrow_mut();
        if w.is_none() {
            *w = Some(Worker::new());
        }
        w.as_mut().unwrap().run(case)
    })
}

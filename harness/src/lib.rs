pub mod core;
pub mod engine;
pub mod gen;
pub mod model;
pub mod props;
pub mod script;
pub mod sim;

pub mod core;
pub mod engine;
pub mod fuzzapi;
pub mod gen;
pub mod isolate;
pub mod jsongen;
pub mod model;
pub mod props;
pub mod script;
pub mod sim;
pub mod tamper;

#[global_allocator]
static GLOBAL: isolate::Counting = isolate::Counting;

#![no_main]
use libfuzzer_sys::fuzz_target;
fuzz_target!(|data: &[u8]| {
    aquaverif::fuzzapi::fz_structured(data);
});

#!/bin/bash
# Run the repository's pinned suite (there are no hooks, so "guard off" is the plain tree)
# and compare with BASELINE.json: every test of stable_pass must pass.
# usage: tools/baseline.sh [repo_dir]
R=${1:-/repo}
cd "$R" || exit 2
rm -f target/nextest/pb/junit.xml
cargo nextest run --workspace --no-fail-fast --tool-config-file pb:/w/lib/nextest.toml --profile pb --test-threads 8 --offline > /tmp/baseline-run.log 2>&1
python3 /w/lib/parse_tests.py --help >/dev/null 2>&1
python3 - "$R" <<'PY'
import json,sys,xml.etree.ElementTree as ET
b=json.load(open('/root/.vp/BASELINE.json'))
want=set(b['stable_pass'])
passed=set(); failed=set()
root=ET.parse(sys.argv[1]+'/target/nextest/pb/junit.xml').getroot()
for tc in root.iter('testcase'):
    tid=(tc.get('classname') or '')+'::'+(tc.get('name') or '')
    if tc.find('failure') is not None or tc.find('error') is not None: failed.add(tid)
    else: passed.add(tid)
passed-=failed
missing=sorted(want-passed)
print(f"baseline: {len(want&passed)}/{len(want)} stable tests pass; {len(passed)} passed, {len(failed)} failed in total")
for m in missing[:20]: print("  MISSING", m)
raise SystemExit(1 if missing else 0)
PY

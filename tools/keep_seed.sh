#!/bin/bash
# usage: keep_seed.sh <name> "<detected by: IDs>" "<missed by: IDs>" "<note>"
# copies /tmp/seed/<name>/OUT into /verif/seeded/<name>/ and records my own confirmation + detection
N=$1; DET=$2; MISS=$3; NOTE=${4:-}
S=/tmp/seed/$N; D=/verif/seeded/${DEST:-$N}
mkdir -p $D
cp $S/OUT/patch.diff $S/OUT/demo.diff $D/
python3 - "$N" "$DET" "$MISS" "$NOTE" <<'PY'
import json,sys,re
n,det,miss,note=sys.argv[1:5]
m=json.load(open(f'/tmp/seed/{n}/OUT/meta.json'))
log=open(f'/tmp/seed/confirm_{n}.log').read()
summ=re.search(r'SUMMARY demo_without_exit=(\d+) demo_with_exit=(\d+)',log)
suite=re.search(r'suite: (.*)',log)
m['confirmed_by_verif_author']={
  'how':'tools/confirm_seed.sh in the scratch worktree: demo.diff alone -> demo command passes; demo.diff + patch.diff -> demo command fails; patch.diff alone -> pinned suite (cargo nextest, BASELINE.json stable_pass) still passes',
  'demo_exit_without_patch':int(summ.group(1)),'demo_exit_with_patch':int(summ.group(2)),'pinned_suite_with_patch':suite.group(1)}
m['checks_run_against_it']={'how':'tools/try_patch.sh patch.diff <IDs> (git apply to /repo, rebuild harness, quick tier, git checkout)','detected_by':det.split(),'not_detected_by':miss.split(),'note':note}
import os
json.dump(m,open(f"/verif/seeded/{os.environ.get('DEST',n)}/meta.json","w"),indent=1)
print('kept',n)
PY

#!/usr/bin/env python3
"""Generate /verif/MANIFEST.json from the table below (kept in one place so the manifest
stays valid and in sync with what the harness implements)."""
import json, os, sys

ROOT = os.path.dirname(os.path.dirname(os.path.abspath(__file__)))

# id -> (category, technique, level text, level note, design ref)
CHECKS = {
    "C01": ("fault_enumeration",
            "proptest fault catalog over simulated histories (re-signed tampered data, bogus call results, token-mutated scripts, small value-growth scripts) run in isolated worker processes with a counting allocator and a per-case live-heap cap; libFuzzer targets (ASan) in the thorough tier",
            "Every operation of a 26-entry tampering catalog (and pairs), call-result faults, token-level script mutations and the other text/byte entry points are generated over honest simulated histories and executed in worker processes; a panic, a process death or a heap peak above 64 MiB + 256 B/input byte is a violation. Generated search cannot show absence; the catalog is enumerated, the histories are sampled.",
            "trusted: worker isolation/allocator accounting of the harness; stack 512 MiB (depth-proportional stack use is documented behaviour); inputs <= ~1 MiB; watchdog kills are inconclusive",
            "4 C01"),
    "C02": ("exploration",
            "proptest over simulated multi-peer histories + injected faulty runs; oracle = ret_code range classification with byte equality of prev data / decodability and request+result bookkeeping of new data",
            "Every run of generated histories and of injected faulty runs (mangled current data, bogus results, bad keys, size limits) is classified by code range and checked against the contract of that range.",
            "trusted: harness simulator and its own bookkeeping of requests/results; independent CID implementation",
            "4 C02"),
    "C03": ("exploration",
            "proptest over simulated histories; oracle = independent CID-store closure check + independent signature verification + differential acceptance by a fresh observer peer",
            "Every new-data outcome of honest histories is re-verified by code written from the data format (not the repository's verifier) and fed to another peer.",
            "trusted: Ed25519/SHA-2/BLAKE3 crates, harness CID/borsh re-implementation",
            "4 C03"),
    "C04": ("exploration",
            "proptest over scripts x schedules (duplicates, late/batched results) in a deterministic network simulator; oracle = no data-consistency error code in any run",
            "Random schedules over generated well-scoped stream scripts on 3-5 honest peers; any run returning a merge/CID/parameter/generation/signature error code is a violation.",
            "trusted: simulator = host protocol of air/README.md; error-code table cross-checked at start-up",
            "4 C04"),
    "C05": ("exploration",
            "model-based history check: host-side model of pending request ids and returned results compared with the peer's data after every run",
            "After every run the set of RequestSentBy(self:id) states must equal the ids the simulated host still holds and the multiset of the peer's own recorded results must equal what the host returned.",
            "trusted: unique values per call instance by construction; independent CID implementation",
            "4 C05"),
    "C06": ("exploration",
            "history invariant (monotone ids vs. counter) + injected unknown/stale/extra result ids with a differential against the honest run",
            "Ids are checked for freshness over whole per-peer run sequences; injected result maps must be reported as unprocessed while leaving the honest trace unchanged.",
            "trusted: simulator bookkeeping",
            "4 C06"),
    "C07": ("exploration",
            "metamorphic: f(c,b), f(c,a), f(c,c), f(c,empty) re-executed for every step c=f(a,b) of generated histories; oracle = equal decoded trace, no requests, no next peers",
            "Idempotence law checked at every intermediate state of every generated history in four redelivery variants.",
            "trusted: serde projection of the decoded trace",
            "4 C07"),
    "C08": ("exploration",
            "metamorphic: permutations (exhaustive up to 4 blobs) and groupings of data blobs merged at an observer and a participant; oracle = equal knowledge multiset / equal trace for stream-free scripts",
            "All orders of up to 4 blobs of one history plus a grouping are merged; knowledge multisets must agree.",
            "trusted: observer peer executes nothing (not named in scripts)",
            "4 C08"),
    "C09": ("exploration",
            "history invariant: multiset inclusion of (kind,CID) knowledge of prev and current in the output of every non-failing run, plus CID-store closure",
            "Monotonic knowledge checked on every run of generated histories; known defect classes are reported as KNOWN-FINDING and excluded by construction from the search domain.",
            "trusted: independent CID closure check",
            "4 C09"),
    "C10": ("exploration",
            "validity predicate (independent forest scan + lore partition) over every trace produced in generated histories",
            "Every produced trace is scanned by an independent structural checker written from the property text.",
            "trusted: the checker's reading of the lore layout, validated on the documented example",
            "4 C10"),
    "C12": ("exploration",
            "history invariant over consecutive data of one peer: generation order of CID-matched stream values is preserved (prev < current-only < produced), density for single-stream scripts",
            "Stream values are matched by content id across prev/current/new data of each run.",
            "trusted: unique call results by construction; ap-produced values are not matched",
            "4 C12"),
    "C20": ("exploration",
            "differential re-execution: same process and fresh process (new hash seeds), compared on a canonical projection of the whole outcome",
            "Every run of generated histories is executed twice in-process; one run per history plus every leftover-result run also in a fresh process.",
            "trusted: fresh process varies hash seeds/ASLR only",
            "4 C20"),
    "C21": ("exploration",
            "grid enumeration of version triples around the minimum x generated deliveries; oracle = independent semver precedence",
            "240-point version grid (all points near the boundary, a third elsewhere per case) wrapped around valid data of generated histories.",
            "trusted: semver.org precedence as re-implemented in the harness",
            "4 C21"),
    "C22": ("exploration",
            "boundary-value enumeration of the three limits in both modes over runs of generated histories; differential against the unlimited run",
            "Each chosen run is repeated under 38 limit configurations x 2 modes; hard rejections, flags and equality with the unlimited run are checked.",
            "trusted: size definitions (script bytes, current data bytes, longest result string)",
            "4 C22"),
    "C27": ("exploration",
            "round-trip and codec-tag mutation over all data / request / result payloads of generated histories; differential against avm-interface decoding",
            "decode(encode(x)) == x under a canonical JSON projection for everything histories produce.",
            "trusted: serde_json projection of the typed values",
            "4 C27"),
}

NOT_YET = {}

def load_extra():
    """checks added by later modules register themselves in tools/manifest_extra.json"""
    p = os.path.join(ROOT, "tools", "manifest_extra.json")
    if os.path.exists(p):
        return json.load(open(p))
    return {"checks": {}, "not_applicable": {}}

def main():
    extra = load_extra()
    checks = dict(CHECKS)
    for k, v in extra.get("checks", {}).items():
        checks[k] = tuple(v)
    na = dict(NOT_YET)
    na.update(extra.get("not_applicable", {}))
    all_ids = [json.loads(l)["id"] for l in open(os.path.join(ROOT, "properties.jsonl"))]
    out_checks = []
    for pid in all_ids:
        if pid not in checks:
            continue
        cat, tech, text, note, ref = checks[pid]
        out_checks.append({
            "property_id": pid,
            "quick_cmd": f"./check.sh {pid} quick",
            "thorough_cmd": f"./check.sh {pid} thorough",
            "evidence_file": f"/verif/evidence/{pid}.json",
            "replay_cmd_template": f"./harness/target/release/aquaverif replay {pid} {{path}}",
            "engine": "aquaverif",
            "level_claimed": {"category": cat, "text": text, "design_ref": f"DESIGN.md section {ref}"},
            "level_note": note,
            "technique": tech,
        })
    not_app = []
    for pid in all_ids:
        if pid in checks:
            continue
        not_app.append({"property_id": pid, "reason": na.get(pid, "no check registered yet: the generated-input check for this property is not implemented in this revision (technique applies; see DESIGN.md section 4)")})
    m = {
        "version": 1,
        "setup_cmd": "./setup.sh",
        "hooks": {
            "guard": "aquavm_verif",
            "enable": "none needed: all checks use public API of the crates under /repo (path dependencies, rebuilt by every check); RUSTFLAGS --cfg aquavm_verif is reserved and unused",
            "baseline_off_cmd": "cd /repo && cargo test --workspace --no-fail-fast --offline",
            "source_commits": [],
            "add_only": True,
        },
        "engines": [
            {"name": "aquaverif", "path": "/verif/harness", "serves_properties": [c["property_id"] for c in out_checks],
             "kind_free_text": "Rust harness: proptest strategies (sharded, seed-pinned by VERIF_SEED) driving a deterministic multi-peer network simulator around air::execute_air, independent oracles (CID, signatures, trace well-formedness, semver, reference evaluator), fault catalogs, worker-process isolation; shrunk failures are written as replay files"},
        ],
        "checks": out_checks,
        "not_applicable": not_app,
        "notes": "All checks: ./check.sh <ID> <quick|thorough>; exit 0 held / 1 VIOLATION line / 2 inconclusive. Known findings: /verif/known_findings.json (never written at run time).",
    }
    json.dump(m, open(os.path.join(ROOT, "MANIFEST.json"), "w"), indent=1)
    print(f"MANIFEST.json: {len(out_checks)} checks, {len(not_app)} not claimed")

if __name__ == "__main__":
    main()

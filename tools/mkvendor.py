#!/usr/bin/env python3
"""Build /verif/vendor as a cargo *directory source* from the .crate files in the
local cargo registry caches (two disjoint caches exist in this image; no single cargo
version sees both, see DESIGN.md §2).  Offline, idempotent."""
import hashlib, json, os, sys, tarfile, glob

HOME = os.path.expanduser("~")
caches = sorted(glob.glob(os.path.join(HOME, ".cargo/registry/cache/*")))
out = sys.argv[1] if len(sys.argv) > 1 else "/verif/vendor"
os.makedirs(out, exist_ok=True)
n = 0
for cache in caches:
    for crate in sorted(os.listdir(cache)):
        if not crate.endswith(".crate"):
            continue
        name = crate[: -len(".crate")]
        dst = os.path.join(out, name)
        if os.path.exists(os.path.join(dst, ".cargo-checksum.json")):
            continue
        path = os.path.join(cache, crate)
        with open(path, "rb") as f:
            sha = hashlib.sha256(f.read()).hexdigest()
        try:
            with tarfile.open(path, "r:gz") as t:
                t.extractall(out)
        except Exception as e:
            print("skip", crate, e, file=sys.stderr)
            continue
        if not os.path.isdir(dst):
            print("unexpected layout", crate, file=sys.stderr)
            continue
        with open(os.path.join(dst, ".cargo-checksum.json"), "w") as f:
            json.dump({"files": {}, "package": sha}, f)
        n += 1
print(f"vendored {n} new crates into {out}")

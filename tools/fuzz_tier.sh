#!/bin/bash
# usage: fuzz_tier.sh <ID>   (thorough tier only)
# Builds the libFuzzer targets (ASan, -O) against /repo's working tree, replays the committed fuzz
# inputs of the targets that serve <ID>, then runs one campaign per target from a fresh deterministic
# corpus with -runs=N -seed=VERIF_SEED.  Prints VIOLATION ... on a crash (exit 1), merges the campaign
# figures into evidence/<ID>.json.  Build problems / timeouts are exit 2 (inconclusive).
# LeakSanitizer is off (-detect_leaks=0): none of the properties speaks about leaks, and a
# 1-byte block that ASan hands out for a zero-sized request inside rkyv's Rc<str>
# deserializer is reported as a leak on some mangled archives (DESIGN section 16).
set -u
ID=$1
case $ID in
  C01) TARGETS="fz_structured fz_envelope fz_parse fz_codec";;
  C14) TARGETS="fz_structured";;
  C02) TARGETS="fz_envelope";;
  C23) TARGETS="fz_parse";;
  C25|C26) TARGETS="fz_json";;
  C27) TARGETS="fz_codec";;
  *) exit 0;;
esac
SEED=${VERIF_SEED:-20260921}; RUNS=${VERIF_FUZZ_RUNS:-1500000}; SECS=${VERIF_FUZZ_SECS:-900}
# a campaign ends after RUNS executions or SECS seconds, whichever comes first (a full interpreter
# run under ASan makes ~50/s); the evidence records the executions actually made
cd /verif/harness
export RUSTFLAGS="--cap-lints warn" CARGO_NET_OFFLINE=true
# also the leak check ASan makes when a campaign ends
export ASAN_OPTIONS=detect_leaks=0
cp -n Cargo.lock fuzz/Cargo.lock 2>/dev/null
if ! timeout 3000 cargo +nightly fuzz build -O > /tmp/fuzz-build-$$.log 2>&1; then
  tail -5 /tmp/fuzz-build-$$.log; echo "INCONCLUSIVE property=$ID fuzz targets do not build"; exit 2
fi
BIN=fuzz/target/x86_64-unknown-linux-gnu/release
./target/release/aquaverif fuzzcorpus fuzz/corpus > /dev/null || exit 2
STATS=""
for t in $TARGETS; do
  # 1. regression inputs
  for f in /verif/replays/fuzz/$t/*; do
    [ -f "$f" ] || continue
    if ! timeout 120 $BIN/$t -detect_leaks=0 "$f" > /tmp/fuzz-replay-$$.log 2>&1; then
      grep -a -m3 -E "ERROR|panicked|VERIF-ORACLE" /tmp/fuzz-replay-$$.log | cut -c1-300
      echo "VIOLATION property=$ID replay=$f"; exit 1
    fi
  done
  # 2. campaign from a fresh copy of the deterministic corpus
  W=fuzz/work/$t; rm -rf $W; mkdir -p $W fuzz/artifacts/$t; cp fuzz/corpus/$t/* $W/
  # the targets' own stderr (parser diagnostics) is large: keep the tail of the log only
  timeout 3000 $BIN/$t $W -runs=$RUNS -max_total_time=$SECS -seed=$SEED -len_control=0 -max_len=8192 -timeout=120 -report_slow_units=120 -rss_limit_mb=4096 -detect_leaks=0 -artifact_prefix=fuzz/artifacts/$t/ 2>&1 | tail -c 30000000 > /tmp/fuzz-run-$$.log
  code=${PIPESTATUS[0]}
  # slow-unit reports do not end a campaign (0.3 s natively can be > 10 s under ASan on a loaded machine)
  if grep -a "Test unit written to" /tmp/fuzz-run-$$.log | grep -a -v -q "slow-unit-"; then
    art=$(grep -a "Test unit written to" /tmp/fuzz-run-$$.log | grep -a -v "slow-unit-" | head -1 | sed 's/.*written to //')
    case "$(basename $art)" in
      timeout-*)
        # a time budget hit under ASan is never a violation: report it as inconclusive
        echo "INCONCLUSIVE property=$ID fuzz campaign $t hit the per-input time limit on $art"; exit 2;;
      oom-*)
        if [ "$ID" != "C01" ]; then echo "INCONCLUSIVE property=$ID fuzz campaign $t hit the memory limit (see C01)"; exit 2; fi;;
    esac
    grep -a -m3 -E "ERROR|panicked|VERIF-ORACLE" /tmp/fuzz-run-$$.log | cut -c1-300
    mkdir -p /verif/replays/fuzz/$t/new; cp "$art" /verif/replays/fuzz/$t/new/
    echo "VIOLATION property=$ID replay=/verif/replays/fuzz/$t/new/$(basename $art)"; exit 1
  fi
  if [ $code -ne 0 ]; then echo "INCONCLUSIVE property=$ID fuzz campaign $t ended with code $code"; exit 2; fi
  done_line=$(grep -a "DONE" /tmp/fuzz-run-$$.log | tail -1)
  cov=$(echo "$done_line" | sed -n 's/.*cov: \([0-9]*\).*/\1/p'); corp=$(echo "$done_line" | sed -n 's/.*corp: \([0-9]*\).*/\1/p')
  made=$(grep -a -o "Done [0-9]* runs" /tmp/fuzz-run-$$.log | tail -1 | grep -o "[0-9]*"); made=${made:-$RUNS}
  echo "fuzz $t: runs=$made (limit $RUNS runs / $SECS s) seed=$SEED cov=$cov corpus=$corp"
  STATS="$STATS $t:$made:${cov:-0}:${corp:-0}"
done
python3 - "$ID" $STATS <<'PY'
import json,sys
import os
pid=sys.argv[1]; p=f"{os.environ.get('VERIF_OUT','/verif')}/evidence/{pid}.json"
e=json.load(open(p))
fz=[]
for s in sys.argv[2:]:
    t,runs,cov,corp=s.split(':')
    fz.append({"target":t,"engine":"libFuzzer (cargo-fuzz, ASan, -O)","runs":int(runs),"coverage_edges":int(cov),"final_corpus":int(corp)})
    e['coverage']['evaluations']+=int(runs)
e['coverage']['fuzz_campaigns']=fz
json.dump(e,open(p,'w'),indent=1)
PY
rm -f /tmp/fuzz-build-$$.log /tmp/fuzz-run-$$.log /tmp/fuzz-replay-$$.log
exit 0

#!/bin/bash
# run every check on the unchanged tree with several seeds (fresh process each); report non-silent runs
SEEDS=${SEEDS:-"1 2 3 4 5"}; SCALE=${SCALE:-1}
cd /verif/harness
for sd in $SEEDS; do
  for id in $(python3 -c "import json;print(' '.join(c['property_id'] for c in json.load(open('/verif/MANIFEST.json'))['checks']))"); do
    VERIF_SEED=$sd VERIF_SCALE=$SCALE VERIF_OUT=/tmp/silence ./target/release/aquaverif check $id quick > /tmp/silence_$id.log 2>&1; code=$?
    if [ $code -ne 0 ]; then echo "NOT SILENT seed=$sd $id exit=$code $(grep -m1 -E 'signature|INCONCLUSIVE' /tmp/silence_$id.log | cut -c1-200)"; cp /tmp/silence_$id.log /tmp/silence_${id}_seed$sd.log; fi
  done
  echo "seed $sd done"
done

#!/bin/bash
# usage: confirm_seed.sh <worktree>   (worktree/OUT has patch.diff demo.diff meta.json)
# Confirms independently: demo passes without the patch, fails with it; the pinned suite still passes with the patch.
set -u
W=$1; cd "$W" || exit 2
export CARGO_TARGET_DIR=$W/target
cp -r OUT /tmp/OUT.$$; git stash -u -q 2>/dev/null; git checkout -q -- . ; git clean -fdq -e target -e OUT
mkdir -p OUT; cp /tmp/OUT.$$/* OUT/; rm -rf /tmp/OUT.$$
DEMO=$(python3 -c "import json;print(json.load(open('OUT/meta.json'))['demo_cmd'])")
git apply OUT/demo.diff || { echo "demo.diff does not apply"; exit 3; }
echo "== demo WITHOUT patch: $DEMO"
bash -c "$DEMO" > OUT/confirm_demo_without.log 2>&1; A=$?
echo "exit=$A"; grep -E "test result|panicked|FAILED|error\[" OUT/confirm_demo_without.log | head -5
git apply OUT/patch.diff || { echo "patch.diff does not apply"; exit 3; }
echo "== demo WITH patch"
bash -c "$DEMO" > OUT/confirm_demo_with.log 2>&1; B=$?
echo "exit=$B"; grep -E "test result|panicked|FAILED|error\[" OUT/confirm_demo_with.log | head -5
echo "== pinned suite WITH patch (demo removed)"
git apply -R OUT/demo.diff
rm -f target/nextest/pb/junit.xml
cargo nextest run --workspace --no-fail-fast --tool-config-file pb:/w/lib/nextest.toml --profile pb --test-threads 8 --offline > OUT/confirm_suite.log 2>&1
python3 - "$W" <<'PY'
import json,sys,xml.etree.ElementTree as ET
b=json.load(open('/root/.vp/BASELINE.json')); want=set(b['stable_pass'])
passed=set(); failed=set()
root=ET.parse(sys.argv[1]+'/target/nextest/pb/junit.xml').getroot()
for tc in root.iter('testcase'):
    tid=(tc.get('classname') or '')+'::'+(tc.get('name') or '')
    (failed if (tc.find('failure') is not None or tc.find('error') is not None) else passed).add(tid)
passed-=failed
print(f"suite: {len(want&passed)}/{len(want)} stable tests pass; missing: {sorted(want-passed)[:5]}")
PY
echo "SUMMARY demo_without_exit=$A demo_with_exit=$B"

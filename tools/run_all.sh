#!/bin/bash
# run every registered check once (quick or thorough) and print a summary line per property
TIER=${1:-quick}
cd /verif
for id in $(python3 -c "import json;print(' '.join(c['property_id'] for c in json.load(open('MANIFEST.json'))['checks']))"); do
  s=$(date +%s)
  ./check.sh $id $TIER > /tmp/run_all_$id.log 2>&1; code=$?
  e=$(( $(date +%s) - s ))
  echo "$id exit=$code ${e}s $(grep -E 'cases=' /tmp/run_all_$id.log | tail -1 | cut -c1-140) $(grep -c KNOWN-FINDING /tmp/run_all_$id.log) known"
  grep -E "VIOLATION|INCONCLUSIVE" /tmp/run_all_$id.log | head -3
done

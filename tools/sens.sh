#!/bin/bash
# usage: sens.sh <patch.diff> <ID> [<ID>...]
# Sensitivity run that does not touch /repo: a scratch worktree of /repo's HEAD under /tmp/sens/repo gets
# the patch, a copy of the harness under /tmp/sens/harness is built against it, the quick checks run with
# known findings / committed replays from /verif and output under /tmp/sens/out/<patch name>/.
set -u
P=$(readlink -f "$1"); shift
NAME=$(basename "$P" .diff); case "$P" in */seeded/*|*/seed/*) NAME=$(basename $(dirname "$P"))-$(basename "$P" .diff);; esac
S=/tmp/sens
mkdir -p $S/out
HEAD=$(git -C /repo rev-parse HEAD)
if [ ! -d $S/repo ]; then git -C /repo worktree add --detach $S/repo $HEAD -q || exit 3; fi
cd $S/repo && git checkout -q -- . && git clean -fdq -e target && git checkout -q --detach $HEAD || exit 3
git apply "$P" || { echo "patch does not apply: $P"; exit 3; }
mkdir -p $S/harness $S/.cargo
rsync -a --delete --exclude target /verif/harness/ $S/harness/
sed -i "s#/repo/#$S/repo/#g" $S/harness/Cargo.toml
cp /verif/.cargo/config.toml $S/.cargo/config.toml
cd $S/harness && cargo build --release 2>&1 | grep -E "^error" -A8 | head -20
OUT=$S/out/$NAME; rm -rf $OUT; mkdir -p $OUT
for id in "$@"; do
  VERIF_ROOT=/verif VERIF_OUT=$OUT ./target/release/aquaverif check $id ${VERIF_TIER:-quick} > $OUT/$id.log 2>&1
  code=$?
  sig=$(grep -m1 "signature:" $OUT/$id.log | sed 's/.*signature: //' | cut -c1-120)
  echo "SENS $NAME $id exit=$code $sig"
done
cd $S/repo && git checkout -q -- . && git clean -fdq -e target

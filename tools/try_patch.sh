#!/bin/bash
# usage: try_patch.sh <patch.diff> <ID> [<ID>...]   -- apply to /repo, rebuild harness, run quick checks, revert.
set -u
P=$1; shift
cd /repo && git apply "$P" || { echo "patch does not apply"; exit 3; }
trap 'git -C /repo checkout -- . ' EXIT
cd /verif/harness && cargo build --release 2>&1 | grep -E "^error" -A8 | head -20
for id in "$@"; do
  VERIF_ROOT=/tmp/verif-try ./target/release/aquaverif check $id quick 2>&1 | grep -v "^proptest" | tail -4
  echo "exit=$? ($id)"
done

#!/bin/bash
# usage: try_patch.sh <patch.diff> <ID> [<ID>...]
# Apply a seeded change to /repo's working tree, rebuild the harness, run the quick checks
# of the given properties (evidence/replays go to /tmp/verif-try, not /verif), then undo.
set -u
P=$(readlink -f "$1"); shift
cd /repo && git apply "$P" || { echo "patch does not apply"; exit 3; }
trap 'git -C /repo checkout -- . ; git -C /repo clean -fdq -- air crates avm 2>/dev/null; cd /verif/harness && cargo build --release 2>&1 | grep -E "^error" -A8 | head -20' EXIT
cd /verif/harness && cargo build --release 2>&1 | grep -E "^error" -A8 | head -20
rm -rf /tmp/verif-try; mkdir -p /tmp/verif-try
for id in "$@"; do
  VERIF_OUT=/tmp/verif-try ${VERIF_TIMEOUT:+timeout $VERIF_TIMEOUT} ./target/release/aquaverif check $id ${VERIF_TIER:-quick} > /tmp/verif-try/$id.log 2>&1
  code=$?
  grep -v "^proptest" /tmp/verif-try/$id.log | grep -E "VIOLATION|signature|message|also:|cases=|INCONCL" | cut -c1-400 | head -8
  echo "exit=$code ($id)"
done

#!/bin/bash
# usage: revert_fix.sh <fix-commit> <ID> [<ID>...]
# Sensitivity run: temporarily un-apply one fix: commit in /repo's working tree, run the quick checks,
# restore.  Output/evidence/replays go to /tmp/verif-try.
set -u
C=$1; shift
cd /repo && git show "$C" | patch -R -p1 -s --no-backup-if-mismatch || { echo "cannot revert $C"; git checkout -- .; exit 3; }
trap 'git -C /repo checkout -- . ; cd /verif/harness && cargo build --release 2>&1 | grep -E "^error" -A8 | head -20' EXIT
cd /verif/harness && cargo build --release 2>&1 | grep -E "^error" -A8 | head -20
rm -rf /tmp/verif-try; mkdir -p /tmp/verif-try
for id in "$@"; do
  VERIF_OUT=/tmp/verif-try ./target/release/aquaverif check $id ${VERIF_TIER:-quick} > /tmp/verif-try/$id.log 2>&1
  code=$?
  grep -v "^proptest" /tmp/verif-try/$id.log | grep -E "VIOLATION|signature|also:|cases=|INCONCL" | cut -c1-300 | head -8
  echo "exit=$code ($id) with $C reverted"
done

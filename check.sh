#!/bin/bash
# ./check.sh <ID> <quick|thorough>
# Rebuilds the harness against /repo's current working tree, runs the property's check,
# writes evidence/<ID>.json.  Exit 0 = held on everything explored; 1 = VIOLATION line
# printed; 2 = inconclusive (build failure, generator floor missed, watchdog).
set -u
ID=${1:?property id}; TIER=${2:-quick}
cd /verif/harness
export CARGO_NET_OFFLINE=true
if ! cargo build --release >/tmp/aquaverif-build-$$.log 2>&1; then
  grep -E "^error" -A12 /tmp/aquaverif-build-$$.log | head -60
  rm -f /tmp/aquaverif-build-$$.log
  echo "INCONCLUSIVE property=$ID harness does not build against the current /repo tree"
  exit 2
fi
rm -f /tmp/aquaverif-build-$$.log
./target/release/aquaverif check "$ID" "$TIER"; code=$?
if [ "$TIER" = "thorough" ] && [ $code -eq 0 ]; then
  # coverage-guided campaigns for the byte/text level properties
  /verif/tools/fuzz_tier.sh "$ID"; code=$?
fi
exit $code
